#!/usr/bin/env python3
"""Evaluate a seeded change: confirm it (suite passes, demo fails with / passes without the change) in a
scratch worktree, then run the given checks against it (VERIF_REPO = the worktree).
usage: eval_mutant.py <dir with patch.diff + demo_test.go> <property> [more properties...]"""
import os, re, subprocess, sys, json, shutil, tempfile, time

ENV = dict(os.environ, GOFLAGS='-mod=mod', GOPROXY='off')
PKGDIR = {'szse_bin': 'szse-bin/messages', 'sse_bin': 'sse-bin/messages', 'sample_bin': 'sample-bin/messages',
          'bjse_trade_bin': 'bjse-trade-bin/messages', 'risk_bin': 'risk-bin/messages', 'codec': 'codec'}


def sh(cmd, cwd=None, timeout=1800):
    p = subprocess.run(cmd, shell=True, cwd=cwd, env=ENV, capture_output=True, text=True, timeout=timeout)
    return p.returncode, p.stdout + p.stderr


def main():
    d = os.path.abspath(sys.argv[1])
    props = sys.argv[2:]
    patch = os.path.join(d, 'patch.diff')
    demo = os.path.join(d, 'demo_test.go')
    wt = tempfile.mkdtemp(prefix='vfmut-', dir='/tmp')
    os.rmdir(wt)
    rc, out = sh('git -C /repo worktree add -q %s HEAD' % wt)
    assert rc == 0, out
    res = {'dir': d, 'worktree': wt}
    try:
        pkg = re.search(r'^package (\w+)', open(demo).read(), re.M).group(1)
        pdir = PKGDIR[pkg.replace('_test', '')]
        demo_dst = os.path.join(wt, pdir, 'zz_seeded_demo_test.go')
        race = '-race' if 'race' in open(os.path.join(d, 'meta.md')).read().lower() and os.path.basename(d)[:3] in ('C19', 'C20') else ''
        # without the change: demo passes
        shutil.copy(demo, demo_dst)
        rc0, out0 = sh('go test -vet=off -count=1 %s ./%s/' % (race, pdir), cwd=wt)
        res['demo_without_change'] = 'pass' if rc0 == 0 else 'FAIL'
        os.remove(demo_dst)
        # with the change
        rc, out = sh('git apply %s' % patch, cwd=wt)
        assert rc == 0, out
        rc1, out1 = sh('go build ./... && go test -vet=off -count=1 ./...', cwd=wt)
        res['suite_with_change'] = 'pass' if rc1 == 0 else 'FAIL'
        shutil.copy(demo, demo_dst)
        rc2, out2 = sh('go test -vet=off -count=1 %s ./%s/' % (race, pdir), cwd=wt)
        res['demo_with_change'] = 'fail' if rc2 != 0 else 'PASSES'
        os.remove(demo_dst)
        res['confirmed'] = res['demo_without_change'] == 'pass' and res['suite_with_change'] == 'pass' and res['demo_with_change'] == 'fail'
        res['checks'] = {}
        for p in props:
            t0 = time.time()
            e = dict(ENV, VERIF_REPO=wt)
            pr = subprocess.run([os.environ.get('VF_CHECK', '/verif/check'), p, 'quick'], env=e, capture_output=True, text=True, timeout=3600)
            lines = pr.stdout.strip().split('\n')
            viol = [l for l in lines if l.startswith('VIOLATION')]
            detail = [l.strip() for l in lines if l.startswith('  item=')]
            res['checks'][p] = {'exit': pr.returncode, 'violations': len(viol), 'first': detail[:3], 'summary': lines[-1] if lines else '',
                                'inconclusive': len([l for l in lines if l.startswith('INCONCLUSIVE')]), 'wall_s': round(time.time() - t0, 1),
                                'broken': [l for l in lines if l.startswith('CHECK BROKEN')]}
    finally:
        sh('git -C /repo worktree remove --force %s' % wt)
    print(json.dumps(res, indent=1))


main()
