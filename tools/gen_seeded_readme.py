#!/usr/bin/env python3
"""Regenerate seeded/README.md from seeded/*/meta.json (+ the first heading line of agent_meta.md)."""
import os, json, re
root = '/verif/seeded'
head = '''# Seeded changes

Each kept change lives in `seeded/<id>/` with `patch.diff`, the demonstration (`demo_test.go`), the
sub-agent's own description (`agent_meta.md`) and `meta.json` (property, origin, what was run, which
check catches it). Every change compiles, passes the 175 tests, and was confirmed with
`tools/eval_mutant.py` (fresh worktree of /repo HEAD: demo passes without the change, suite passes and
demo fails with it). To evaluate one against /repo itself:
`git -C /repo apply seeded/<id>/patch.diff; ./check <property> quick; git -C /repo checkout -- .`

"after ..." / "missed at first" means the check missed the change at first and was strengthened.
Rounds: -a first, -b second (different nature from -a), -c third (different nature from both), ...

| id | property | change (from the agent's description) | caught by | history |
|---|---|---|---|---|
'''
rows = []
for d in sorted(os.listdir(root)):
    p = os.path.join(root, d, 'meta.json')
    if not os.path.exists(p):
        continue
    m = json.load(open(p))
    desc = ''
    am = os.path.join(root, d, 'agent_meta.md')
    if os.path.exists(am):
        for line in open(am):
            line = line.strip().lstrip('#').strip()
            if line:
                desc = line
                break
    rows.append('| %s | %s | %s | %s | %s |' % (m['id'], m['property'], desc.replace('|', '/')[:140], m.get('caught_by', '').replace('|', '/'), m.get('history', '').replace('|', '/')))
open(os.path.join(root, 'README.md'), 'w').write(head + '\n'.join(rows) + '\n')
print(len(rows), 'rows')
