#!/usr/bin/env python3
"""Regenerates /verif/MANIFEST.json from the table below (kept by hand, one row per property)."""
import json, sys

TB = ("trusted base: the Go standard library through the hand-written contracts listed in the evidence "
      "(bytes.Buffer, io.ReadFull, encoding/binary, bytes.Repeat/Trim*, crc32, sync), the go/ssa front end, "
      "the SSA->SMT encoder in /verif/engine, z3 5.1.0; the pinned schema under /verif/schema is the layout oracle; "
      "counterexamples are replayed against the natively compiled tree before being reported")

CLAIMED = {
 "C01": ("model_checking", "symbolic execution of real Encode+Decode (go/ssa -> SMT), per-field z3 queries, all 170 types x all 226 keys",
         "For every codec type, key and list shape the solver shows decoded == original for every canonical value (all integer/float patterns, all text contents and lengths up to the field width, prefixed text up to P bytes); bounded by list lengths and P as stated in the evidence.", "DESIGN.md §6 C01"),
 "C02": ("translation_validation", "translation validation of each generated codec against a reference interpreter of the pinned schema (SMT, per region)",
         "Each message type's real Encode is shown byte-for-byte equal to the schema interpreter's rendering on the wide domain (incl. over-long text), the real Decode of reference bytes returns the value, and for fixed layouts the real Decode of arbitrary bytes equals the reference decoding; one program per (type,key,shape).", "DESIGN.md §6 C02"),
 "C03": ("model_checking", "symbolic execution of every BE/LE primitive instantiation and of every message Encode; integer regions compared with the declared byte order by z3",
         "All 700+ primitive instantiations (prefix x element types) and all integer regions of all messages are rendered in the declared byte order for every value, within the list-length bounds.", "DESIGN.md §6 C03"),
}

NA_REASON = "check under construction in this session; not yet claimed"

def main():
    checks = []
    for pid in sorted(CLAIMED):
        level, tech, text, ref = CLAIMED[pid]
        checks.append({
            "property_id": pid,
            "quick_cmd": "./check %s quick" % pid,
            "thorough_cmd": "./check %s thorough" % pid,
            "evidence_file": "/verif/evidence/%s.json" % pid,
            "replay_cmd_template": "./check replay {path}",
            "engine": "vfcheck",
            "level_claimed": {"category": level, "text": text, "design_ref": ref},
            "level_note": TB,
            "technique": tech,
        })
    na = [{"property_id": "C%02d" % i, "reason": NA_REASON} for i in range(1, 21) if "C%02d" % i not in CLAIMED]
    m = {
        "version": 1,
        "setup_cmd": "cd /verif/engine && GOFLAGS=-mod=mod GOPROXY=off go build -o /verif/bin/vfcheck .",
        "hooks": {
            "guard": "verif",
            "enable": "no hooks in /repo are needed: the engine loads /repo's working tree with go/packages and injects one overlay file (codec/zz_verif_inst.go, generic instantiations only) at load time; nothing is written to /repo",
            "baseline_off_cmd": "cd /repo && GOFLAGS=-mod=mod GOPROXY=off go test -vet=off -count=1 -timeout 25m ./...",
            "source_commits": [],
            "add_only": True,
        },
        "engines": [{"name": "vfcheck", "path": "/verif/engine", "serves_properties": sorted(CLAIMED),
                     "kind_free_text": "bounded symbolic executor for go/ssa written for this task (terms, byte sequences, heap, intrinsics for the standard library, merge-at-return), SMT-LIB2 over a persistent z3 5.1.0 process, native replay runner (vfrun) built against the tree under test"}],
        "checks": checks,
        "not_applicable": na,
        "notes": "Every check rebuilds its encoding from /repo's current working tree (VERIF_REPO overrides the location). Genuine defects found on the pinned tree and repaired by fix: commits are listed in /verif/known_findings.json.",
    }
    json.dump(m, open('/verif/MANIFEST.json', 'w'), indent=1)
    print("claimed:", sorted(CLAIMED))

main()
