#!/usr/bin/env python3
"""Regenerates /verif/MANIFEST.json from the table below (kept by hand, one row per property)."""
import json, sys

TB = ("trusted base: the Go standard library through the hand-written contracts listed in the evidence "
      "(bytes.Buffer, io.ReadFull, encoding/binary, bytes.Repeat/Trim*, crc32, sync), the go/ssa front end, "
      "the SSA->SMT encoder in /verif/engine, z3 5.1.0; the pinned schema under /verif/schema is the layout oracle; "
      "counterexamples are replayed against the natively compiled tree before being reported")

CLAIMED = {
 "C01": ("model_checking", "symbolic execution of real Encode+Decode (go/ssa -> SMT), per-field z3 queries, all 170 types x all 226 keys",
         "For every codec type, key and list shape the solver shows decoded == original for every canonical value (all integer/float patterns, all text contents and lengths up to the field width, prefixed text up to P bytes); bounded by list lengths and P as stated in the evidence.", "DESIGN.md §6 C01"),
 "C02": ("translation_validation", "translation validation of each generated codec against a reference interpreter of the pinned schema (SMT, per region)",
         "Each message type's real Encode is shown byte-for-byte equal to the schema interpreter's rendering on the wide domain (incl. over-long text), the real Decode of reference bytes returns the value, and for fixed layouts the real Decode of arbitrary bytes equals the reference decoding; one program per (type,key,shape).", "DESIGN.md §6 C02"),
 "C03": ("model_checking", "symbolic execution of every BE/LE primitive instantiation and of every message Encode; integer regions compared with the declared byte order by z3; basic-type lists of 64..4097 elements (bulk-path thresholds)",
         "All 700+ primitive instantiations (prefix x element types) and all integer regions of all messages are rendered in the declared byte order for every value, within the list-length bounds.", "DESIGN.md §6 C03"),

 "C04": ("model_checking", "symbolic execution of the real frame Encode with symbolic prior buffer content and stale fields; z3 decides length-bytes == body byte count; stale bytes.Buffer views on the patch path are candidates replayed with inflated messages",
         "For the four frames with a computed length, every registered body key (and an absent body), every body value in the wide domain, every stale length and every prior buffer content of the stated sizes, the wire length and the object's length equal the number of body bytes appended.", "DESIGN.md §6 C04"),
 "C05": ("model_checking", "symbolic execution of the real frame Encode including the real checksum service call; z3 decides trailer == algorithm(this frame's bytes)",
         "For the three checksummed frames the trailer and the object's checksum equal the reference algorithm over exactly the bytes appended by this Encode (prior bytes excluded, corrected length included) for every body, stale value and prior content within the bounds; CRC-32 is handled as a function of its argument bytes (algorithm itself: C14).", "DESIGN.md §6 C05"),
 "C06": ("model_checking", "three symbolic executions of the real Encode (empty buffer, buffer with symbolic history, re-encode of the mutated object) compared by z3; encode / failed encode / encode sequences with a sync.Pool reuse model",
         "One inductive step from an arbitrary prior buffer: prior bytes untouched, appended bytes independent of history and of the object's own encode history, for every type/key/shape and every wide value.", "DESIGN.md §6 C06"),
 "C07": ("model_checking", "symbolic execution of Encode, symbolic tail, Decode; and of two encodes followed by two decodes; decode of checksummed frames with the registry emptied",
         "Decode consumes exactly the message bytes for every canonical value and every tail (symbolic length and content); two streamed messages are recovered in order.", "DESIGN.md §6 C07"),
 "C11": ("model_checking", "symbolic execution of Decode on A[:k] with a symbolic cut point; every feasible path must be an error path",
         "For every type/key/shape, every canonical value and every cut position the decoder returns an error; the success path is shown infeasible by z3.", "DESIGN.md §6 C11"),

 "C12": ("model_checking", "concrete execution of the tree's init-built factory tables on all 226 pinned keys plus symbolic execution on a symbolic unregistered key (full 16/32-bit range, texts up to 4 bytes); each unregistered key looked up twice in the state the first look-up left; Encode with absent body per key",
         "Table identity for all 18 tables x 226 keys; every unregistered key value is shown to produce an error by z3 (an extra or mistyped registration yields the key as counterexample); encoder fill-in builds the pinned type and the reference bytes.", "DESIGN.md §6 C12"),
 "C13": ("model_checking", "symbolic execution of the real fixed-text writer/reader per width with symbolic pad byte, side, text and image; z3 decides equality with the pad/cut/strip specification; list readers element by element against the scalar specification",
         "For 20 widths (0..200), all 256 pad bytes, both sides, every text of length 0..N+2 and every N-byte image the writer emits exactly the specified N bytes and the reader strips only the pad run on the pad side; short buffers are errors.", "DESIGN.md §6 C13"),
 "C14": ("model_checking", "cut-point symbolic execution of each Calc loop: init/step/exit lemmas against the catalogue CRC formulation and a ghost byte sum (induction over length), plus whole-stream equivalence for short inputs, purity, and independence from the service's call history (buffer overwritten in place, other buffer)",
         "CRC-16/MODBUS, SSE and SZSE sums: inductive lemmas discharged by z3 give every length up to 2^26; streams up to 3 (8) symbolic bytes equal the independent formulation; Calc does not touch the buffer; CRC-32 is shown to be hash/crc32 over exactly the unread bytes.", "DESIGN.md §6 C14"),
 "C18": ("model_checking", "symbolic execution of every prefixed writer with a fully symbolic text length (up to 2^33) and of list writers at max-1..max+2 elements; message-level Encode driven over each text prefix boundary; object lists with an element whose own Encode refuses",
         "z3 shows: success implies length <= max(prefix) for all text writers and all message text fields; list writers refuse max+1 and max+2 elements and write a faithful count at max; at the maximum text round-trips.", "DESIGN.md §6 C18"),

 "C08": ("model_checking", "symbolic execution of Decode on an arbitrary wire image followed by Encode of the result; z3 compares the re-encoded bytes with the consumed input region by region; also on fully arbitrary byte strings of symbolic length (arbmsg items)",
         "For every type/key/shape every wire image (all bytes symbolic inside the shape: scalars, all W bytes of each fixed text, prefixed text up to P) that Decode accepts is reproduced by Encode, computed frame fields being replaced by their correct values.", "DESIGN.md §6 C08"),
 "C09": ("model_checking", "symbolic execution of every Decode on every prefix of an arbitrary wire image and of every reader primitive on a fully arbitrary byte string; panic side conditions, abort-sized allocations, loop progress and leaked locks decided by z3; message decoders also on fully arbitrary byte strings, unregistered keys decoded twice",
         "No panic side condition is satisfiable on any explored path, every path returns a message or an error, unregistered discriminators (symbolic) are errors, no reader loop outlives its input, no single allocation request reaches 2^32 bytes.", "DESIGN.md §6 C09"),
 "C10": ("model_checking", "ghost allocation counter of the symbolic executor on arbitrary inputs; z3 decides size <= 64*input+64 per allocation and a linear budget per path; message decoders on fully arbitrary byte strings; list readers on 1030+ genuine elements behind a larger claimed count",
         "Every allocation made by every reader primitive on an arbitrary byte string (arbitrary counts/lengths) and by every message Decode on arbitrary wire images stays within a linear budget of the input size.", "DESIGN.md §6 C10"),
 "C15": ("model_checking", "two symbolic executions of Decode on the same arbitrary image (fresh vs dirty receiver) compared by z3",
         "Error-ness, consumption and every field agree between a fresh and a dirty receiver (non-empty lists, other body type, nested parts holding data) for every type/key/shape and every arbitrary wire image.", "DESIGN.md §6 C15"),

 "C16": ("model_checking", "object-identity (points-to) analysis by symbolic execution of Decode/Encode with aliasing views modelled (Bytes/Next/NewBuffer/unsafe.*), plus havoc of the other side's memory; length-prefixed texts of 300..70000 bytes (zero-copy thresholds)",
         "On every explored path no string/slice reachable from a decoded message shares an object with the buffer and the message is unchanged when the buffer bytes are havocked; symmetric for Encode. The solver's role here is path feasibility; the aliasing verdict is structural (object identities of the executor).", "DESIGN.md §6 C16"),
 "C17": ("model_checking", "symbolic execution of Encode on zero/constructor/wide/mismatching/absent-body/absent-part values; z3 decides the panic side conditions; also into a partly drained buffer with symbolic spare capacity",
         "No nil dereference, failed type assertion, index or slice bound violation is satisfiable on any path of any type's Encode for the listed value classes (all 226 keys for absent bodies, symbolic unregistered keys).", "DESIGN.md §6 C17"),
 "C19": ("model_checking", "symbolic execution of the real Registry/Get/Remove/Clear from several pre-states against an atomic-map specification, lock-discipline (lockset) check on every path",
         "Sequential behaviour equals an atomic map for every registered, unknown and symbolic name; every shared access is inside the single critical section of its operation with the right lock mode, which gives atomicity by reduction and race freedom for any number of goroutines (meta-argument stated in the evidence).", "DESIGN.md §6 C19"),
 "C20": ("model_checking", "write-footprint obligation on every feasible path of every Encode/Decode (symbolic execution with ghost access records on pre-existing objects)",
         "No path of any Encode/Decode writes to an object that existed after package initialisation, the registry is only read under its lock, and no concurrency primitive is reached; disjoint calls therefore commute (meta-argument).", "DESIGN.md §6 C20"),
}

NA_REASON = "check under construction in this session; not yet claimed"

def main():
    checks = []
    for pid in sorted(CLAIMED):
        level, tech, text, ref = CLAIMED[pid]
        checks.append({
            "property_id": pid,
            "quick_cmd": "./check %s quick" % pid,
            "thorough_cmd": "./check %s thorough" % pid,
            "evidence_file": "/verif/evidence/%s.json" % pid,
            "replay_cmd_template": "./check replay {path}",
            "engine": "vfcheck",
            "level_claimed": {"category": level, "text": text, "design_ref": ref},
            "level_note": TB,
            "technique": tech,
        })
    na = [{"property_id": "C%02d" % i, "reason": NA_REASON} for i in range(1, 21) if "C%02d" % i not in CLAIMED]
    m = {
        "version": 1,
        "setup_cmd": "cd /verif/engine && GOFLAGS=-mod=mod GOPROXY=off go build -o /verif/bin/vfcheck .",
        "hooks": {
            "guard": "verif",
            "enable": "no hooks in /repo are needed: the engine loads /repo's working tree with go/packages and injects one overlay file (codec/zz_verif_inst.go, generic instantiations only) at load time; nothing is written to /repo",
            "baseline_off_cmd": "cd /repo && GOFLAGS=-mod=mod GOPROXY=off go test -vet=off -count=1 -timeout 25m ./...",
            "source_commits": [],
            "add_only": True,
        },
        "engines": [{"name": "vfcheck", "path": "/verif/engine", "serves_properties": sorted(CLAIMED),
                     "kind_free_text": "bounded symbolic executor for go/ssa written for this task (terms, byte sequences, heap, intrinsics for the standard library, merge-at-return), SMT-LIB2 over a persistent z3 5.1.0 process, native replay runner (vfrun) built against the tree under test"}],
        "checks": checks,
        "not_applicable": na,
        "notes": "Every check rebuilds its encoding from /repo's current working tree (VERIF_REPO overrides the location). Genuine defects found on the pinned tree and repaired by fix: commits are listed in /verif/known_findings.json.",
    }
    json.dump(m, open('/verif/MANIFEST.json', 'w'), indent=1)
    print("claimed:", sorted(CLAIMED))

main()
