#!/usr/bin/env python3
"""One-off extractor of the pinned wire schema (run once against the pinned commit, output reviewed and
committed under /verif/schema; NEVER run by the checks).  Three syntactically independent views of every
type are extracted - the Encode body, the Decode body and the struct declaration - and must agree.
Byte order is NOT copied from the code: it is declared per protocol below."""
import re, glob, json, sys, os

REPO = sys.argv[1] if len(sys.argv) > 1 else '/repo'
OUT = sys.argv[2] if len(sys.argv) > 2 else '/verif/schema'
MODS = {'sse-bin': ('sse_bin_v0.57', 'big'), 'szse-bin': ('szse_bin_v1.29', 'big'),
        'bjse-trade-bin': ('bse_trade_bin_v0.9', 'little'), 'risk-bin': ('risk_v0.1.0', 'big'),
        'sample-bin': ('sample', 'little')}
# hand-written example types living in sample-bin that define their own (big-endian) format
HANDWRITTEN_BE = {'sample-bin': ['RiskControlRequest', 'SubOrder']}


def padval(pc):
    if pc == '\\x00':
        return 0
    assert len(pc) == 1, pc
    return ord(pc)


def parse_struct(src, t):
    m = re.search(r'^type %s struct \{\n(.*?)^\}' % t, src, re.S | re.M)
    out = []
    for line in m.group(1).splitlines():
        line = line.strip()
        if not line or line.startswith('//'):
            continue
        mm = re.match(r'(\w+)\s+(\S+)(?:\s+`json:"(\w+)"`)?', line)
        out.append((mm.group(1), mm.group(2), mm.group(3) or mm.group(1)))
    return out


def parse_encode(body):
    fields = []
    sumnext = None
    toks = re.finditer(
        r'if err := ([^;\n]*); err != nil \{\n\t\t(return[^\n]*)'
        r'|if p\.(\w+) != nil \{|if p\.(\w+) == nil \{|codec\.Get\("(\w+)"\)'
        r'|^\t(codec\.\w+(?:\[[^\]]*\])?\(buf, [^\n]*\))$|^\t(binary\.Write\(buf, binary\.(\w+), \w\.(\w+)\))$|^\t\w\.(\w+)\.Encode\(buf\)$',
        body, re.M)
    for st in toks:
        if st.group(5):
            sumnext = st.group(5)
            continue
        if st.group(3):
            fields.append({'kind': 'body', 'go': st.group(3), 'fill': False})
            continue
        if st.group(4):
            fields.append({'kind': 'body', 'go': st.group(4), 'fill': True})
            continue
        if st.group(7):  # hand-written binary.Write
            fields.append({'kind': 'int', 'go': st.group(9), 'le': st.group(8) == 'LittleEndian'})
            continue
        if st.group(10):
            fields.append({'kind': 'nested', 'go': st.group(10)})
            continue
        call = st.group(1) or st.group(6)
        ret = st.group(2) or ''
        call = re.sub(r'\b[rs]\.', 'p.', call)
        mm = re.match(r'p\.(\w+)\.Encode\(buf\)$', call)
        if mm:
            if fields and fields[-1]['kind'] == 'body' and fields[-1]['go'] == mm.group(1):
                continue
            fields.append({'kind': 'nested', 'go': mm.group(1)})
            continue
        mm = re.match(r'codec\.(WriteBasicType)(LE)?\(buf, uint32\(0\)\)$', call)
        if mm:
            name = re.search(r'"failed to encode %s: %w", "(\w+)"', ret).group(1)
            fields.append({'kind': 'computed_len', 'wire': name, 'le': bool(mm.group(2))})
            continue
        mm = re.match(r'codec\.(WriteBasicType)(LE)?\(buf, p\.(\w+)\)$', call)
        if mm:
            if sumnext:
                fields.append({'kind': 'computed_sum', 'go': mm.group(3), 'le': bool(mm.group(2)), 'alg': sumnext})
                sumnext = None
            else:
                fields.append({'kind': 'int', 'go': mm.group(3), 'le': bool(mm.group(2))})
            continue
        mm = re.match(r'codec\.WriteFixedString\(buf, p\.(\w+), (\d+)\)$', call)
        if mm:
            fields.append({'kind': 'fixstr', 'go': mm.group(1), 'width': int(mm.group(2)), 'pad': 32, 'left': False})
            continue
        mm = re.match(r"codec\.WriteFixedStringWithPadding\(buf, p\.(\w+), (\d+), '(.*?)', (true|false)\)$", call)
        if mm:
            fields.append({'kind': 'fixstr', 'go': mm.group(1), 'width': int(mm.group(2)), 'pad': padval(mm.group(3)), 'left': mm.group(4) == 'true'})
            continue
        mm = re.match(r'codec\.WriteString(LE)?\[(\w+)\]\(buf, p\.(\w+)\)$', call)
        if mm:
            fields.append({'kind': 'pstr', 'go': mm.group(3), 'prefix': mm.group(2), 'le': bool(mm.group(1))})
            continue
        mm = re.match(r'codec\.WriteBasicTypeList(LE)?\[(\w+)\]\(buf, p\.(\w+)\)$', call)
        if mm:
            fields.append({'kind': 'list_basic', 'go': mm.group(3), 'count': mm.group(2), 'le': bool(mm.group(1))})
            continue
        mm = re.match(r'codec\.WriteFixedStringList\[(\w+)\]\(buf, p\.(\w+), (\d+)\)$', call)
        if mm:
            fields.append({'kind': 'list_fixstr', 'go': mm.group(2), 'count': mm.group(1), 'width': int(mm.group(3)), 'pad': 32, 'left': False, 'le': False})
            continue
        mm = re.match(r"codec\.WriteFixedStringListWithPadding(LE)?\[(\w+)\]\(buf, p\.(\w+), (\d+), '(.*?)', (true|false)\)$", call)
        if mm:
            fields.append({'kind': 'list_fixstr', 'go': mm.group(3), 'count': mm.group(2), 'width': int(mm.group(4)), 'pad': padval(mm.group(5)), 'left': mm.group(6) == 'true', 'le': bool(mm.group(1))})
            continue
        mm = re.match(r'codec\.WriteStringList(LE)?\[(\w+), (\w+)\]\(buf, p\.(\w+)\)$', call)
        if mm:
            fields.append({'kind': 'list_pstr', 'go': mm.group(4), 'count': mm.group(2), 'prefix': mm.group(3), 'le': bool(mm.group(1))})
            continue
        mm = re.match(r'codec\.WriteObjectList(LE)?\[(\w+)\]\(buf, p\.(\w+)\)$', call)
        if mm:
            fields.append({'kind': 'list_obj', 'go': mm.group(3), 'count': mm.group(2), 'le': bool(mm.group(1))})
            continue
        mm = re.match(r'val, err := New(\w+)MessageBy(\w+)\(p\.(\w+)\)$', call)
        if mm:
            continue
        raise SystemExit('UNPARSED encode statement: ' + call)
    return fields


def parse_decode(body):
    """Returns list of (go field, reader description) in order."""
    out = []
    for st in re.finditer(
            r'if val, err := ([^;\n]*); err != nil \{\n\t\treturn err\n\t\} else \{\n\t\tp\.(\w+) = val\n\t\}'
            r'|if err := p\.(\w+)\.Decode\(buf\); err != nil'
            r'|if [rs]\.(\w+), err = ([^;\n]*); err != nil'
            r'|if err = [rs]\.(\w+)\.Decode\(buf\); err != nil', body):
        if st.group(3):
            if out and out[-1][0] == st.group(3) and out[-1][1].startswith('factory'):
                continue
            out.append((st.group(3), 'nested'))
            continue
        if st.group(6):
            out.append((st.group(6), 'nested'))
            continue
        call, go = (st.group(1), st.group(2)) if st.group(1) else (st.group(5), st.group(4))
        mm = re.match(r'New(\w+)MessageBy(\w+)\(p\.(\w+)\)$', call)
        if mm:
            out.append((go, 'factory:%s:%s:%s' % (mm.group(1), mm.group(2), mm.group(3))))
            continue
        out.append((go, call))
    return out


def decode_matches(f, dec, gotype):
    """Does the decode call `dec` read what schema field f writes?"""
    k = f['kind']
    le = 'LE' if f.get('le') else ''
    if k in ('int', 'float', 'computed_len', 'computed_sum'):
        t = gotype if gotype != 'byte' else 'byte'
        return dec in ('codec.ReadBasicType%s[%s](buf)' % (le, t),)
    if k == 'fixstr':
        if f['pad'] == 32 and not f['left']:
            if dec == 'codec.ReadFixedString(buf, %d)' % f['width']:
                return True
        pc = {0: '\\x00'}.get(f['pad'], chr(f['pad']))
        return dec == "codec.ReadFixedStringTrimPadding(buf, %d, '%s', %s)" % (f['width'], pc, 'true' if f['left'] else 'false')
    if k == 'pstr':
        return dec == 'codec.ReadString%s[%s](buf)' % (le, f['prefix'])
    if k == 'list_basic':
        return dec == 'codec.ReadBasicTypeList%s[%s, %s](buf)' % (le, f['count'], gotype[2:])
    if k == 'list_fixstr':
        if f['pad'] == 32 and not f['left'] and not f.get('le'):
            if dec == 'codec.ReadFixedStringList[%s](buf, %d)' % (f['count'], f['width']):
                return True
        pc = {0: '\\x00'}.get(f['pad'], chr(f['pad']))
        return dec == "codec.ReadFixedStringListTrimPadding%s[%s](buf, %d, '%s', %s)" % (le, f['count'], f['width'], pc, 'true' if f['left'] else 'false')
    if k == 'list_pstr':
        return dec == 'codec.ReadStringList%s[%s, %s](buf)' % (le, f['count'], f['prefix'])
    if k == 'list_obj':
        en = gotype[3:]
        return dec == 'codec.ReadObjectList%s[%s](buf, func() *%s { return &%s{} })' % (le, f['count'], en, en)
    if k == 'nested':
        return dec == 'nested'
    if k == 'body':
        return dec.startswith('factory:')
    return False


def main():
    os.makedirs(OUT, exist_ok=True)
    total_types = total_tables = total_keys = 0
    for mod, (proto, order) in MODS.items():
        types, tables = {}, {}
        for f in sorted(glob.glob('%s/%s/messages/*.go' % (REPO, mod))):
            if f.endswith('_test.go'):
                continue
            src = open(f).read()
            for mm in re.finditer(r'^func New(\w+)MessageBy(\w+)\(key (\w+)\)', src, re.M):
                msg, kind, kt = mm.groups()
                ents = re.findall(r'Registry%s%sFactory\(("[^"]*"|\d+), func\(\) codec\.BinaryCodec \{ return &(\w+)\{\} \}\)' % (msg, kind), src)
                tables['%s%s' % (msg, kind)] = {'owner': msg, 'key_kind': kind, 'key_type': kt,
                                                'new_fn': 'New%sMessageBy%s' % (msg, kind),
                                                'entries': [[json.loads(k), t] for k, t in ents]}
            for m in re.finditer(r'^func \(\w \*(\w+)\) Encode\(buf \*bytes\.Buffer\)(?: error)? \{\n(.*?)^\}\n', src, re.S | re.M):
                t, body = m.group(1), m.group(2)
                enc = parse_encode(body)
                dm = re.search(r'^func \(\w \*%s\) Decode\(buf \*bytes\.Buffer\) error \{\n(.*?)^\}\n' % t, src, re.S | re.M)
                dec = parse_decode(dm.group(1))
                st = parse_struct(src, t)
                # view 1 vs view 3: order and names
                fields = []
                si = 0
                for ef in enc:
                    if ef['kind'] == 'computed_len':
                        # the struct field at this position is the length field
                        ef['go'] = st[si][0]
                    assert ef['go'] == st[si][0], (mod, t, ef, st[si])
                    goname, gotype, wire = st[si]
                    ef['wire'] = wire
                    k = ef['kind']
                    if k in ('int', 'computed_len', 'computed_sum'):
                        ef['type'] = 'uint8' if gotype == 'byte' else gotype
                        if gotype.startswith('float'):
                            ef['kind'] = 'float' if k == 'int' else k
                    elif k == 'list_basic':
                        assert gotype.startswith('[]'), (mod, t, ef, gotype)
                        ef['elem'] = gotype[2:]
                    elif k == 'list_obj':
                        assert gotype.startswith('[]*'), (mod, t, ef, gotype)
                        ef['elem'] = gotype[3:]
                    elif k == 'nested':
                        ef['type'] = gotype.lstrip('*')
                        ef['ptr'] = gotype.startswith('*')
                    elif k == 'body':
                        assert gotype == 'codec.BinaryCodec'
                    elif k in ('fixstr', 'pstr'):
                        assert gotype == 'string', (mod, t, ef, gotype)
                    elif k in ('list_fixstr', 'list_pstr'):
                        assert gotype == '[]string', (mod, t, ef, gotype)
                    # view 2: decode
                    dgo, dcall = dec[si]
                    assert dgo == goname, (mod, t, 'decode order', dgo, goname)
                    assert decode_matches(ef, dcall, gotype), (mod, t, 'decode mismatch', ef, dcall, gotype)
                    if k == 'body':
                        _, owner, kind, keyf = dcall.split(':')
                        ef['table'] = owner + kind
                        ef['key'] = keyf
                    fields.append(ef)
                    si += 1
                assert si == len(st) == len(dec), (mod, t, si, len(st), len(dec))
                types[t] = {'fields': fields}
                if any(f['kind'] in ('computed_len', 'computed_sum') for f in fields) or t.endswith('Binary') or t == 'RootPacket':
                    types[t]['frame'] = True
                if t in HANDWRITTEN_BE.get(mod, []):
                    types[t]['byte_order'] = 'big'
                    types[t]['handwritten'] = True
        # The 'le' flags found in the code are dropped: byte order is declared, per protocol.
        for t in types.values():
            for f in t['fields']:
                f.pop('le', None)
        doc = {'module': mod, 'package': 'github.com/xinchentechnote/fin-proto-go/%s/messages' % mod,
               'pinned_commit': '5a2d38a', 'protocol': proto, 'byte_order': order, 'types': types, 'tables': tables}
        json.dump(doc, open('%s/%s.json' % (OUT, mod), 'w'), indent=1, sort_keys=False)
        nk = sum(len(t['entries']) for t in tables.values())
        print(mod, len(types), 'types', len(tables), 'tables', nk, 'keys')
        total_types += len(types); total_tables += len(tables); total_keys += nk
    print('TOTAL', total_types, 'types', total_tables, 'tables', total_keys, 'keys')


main()
