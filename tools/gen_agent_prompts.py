#!/usr/bin/env python3
"""Generate the prompt files for one round of seeding sub-agents.
usage: gen_agent_prompts.py <round letter> <outdir>
Each prompt contains only the property text (from properties.jsonl), the agent's scratch worktree and
short descriptions of the changes earlier agents already produced (so that the new one differs in
nature). Nothing about the checks in /verif goes in."""
import json, os, re, sys, glob

rnd, out = sys.argv[1], sys.argv[2]
os.makedirs(out, exist_ok=True)
props = [json.loads(l) for l in open('/verif/properties.jsonl')]


def earlier(pid):
    res = []
    for d in sorted(glob.glob('/verif/seeded/%s-*' % pid)):
        f = os.path.join(d, 'agent_meta.md')
        if not os.path.exists(f):
            continue
        txt = open(f).read()
        title = txt.split('\n', 1)[0].lstrip('# ').strip()
        m = re.search(r'^## The change[^\n]*\n(.*?)(?=^## )', txt, re.S | re.M)
        body = (m.group(1).strip() if m else '')[:700]
        head = re.search(r'^## The change([^\n]*)', txt, re.M)
        res.append('- %s %s\n  %s' % (title, head.group(1).strip() if head else '', body.replace('\n', '\n  ')))
    return '\n'.join(res)


for p in props:
    pid = p['id']
    wt = '/tmp/mut/%s%s' % (pid, rnd)
    txt = f"""You are helping to evaluate a verification effort for the Go library xinchentechnote/fin-proto-go
(generated binary codecs for Chinese exchange trading protocols SSE, SZSE, BSE, risk, sample, on top of a
small hand-written codec and checksum library). Your job is to act as a realistic source of regressions.

Your own scratch git worktree of the repository is {wt} (already created; work ONLY there; never touch /repo
or /verif, and do not read anything under /verif). Shell environment for every go command:
  export GOFLAGS=-mod=mod GOPROXY=off     (leave GOTOOLCHAIN and GOSUMDB unset; there is no network)
The existing test suite is: cd {wt} && go test -vet=off -count=1 ./...   (175 tests, about 1-2 minutes)
Do not run `go clean -cache`.

The property (id {pid}): {p.get('title')}
{p.get('statement')}
Where it lives: {json.dumps(p.get('anchors'), ensure_ascii=False)}

TASK. Make ONE change to the library's non-test source in your worktree (one or two sites, the kind of edit
a maintainer or a generator-template change could plausibly make: an optimisation, a refactoring, a
"simplification", a fast path, caching, a reordering, a changed helper) that BREAKS this property while
  (1) everything still compiles (go build ./... && go vet is not required),
  (2) the existing test suite still passes completely, unedited,
  (3) the breakage needs something specific to manifest - a particular interleaving, a multi-step sequence
      of operations, an unusual input (a boundary size, a particular byte value, a particular message
      type/key, a particular list length), reuse of a buffer or receiver, or two cooperating sites that
      each look fine alone. NOT something that ordinary use would expose at once.
Write a demonstration: a Go test file (external test package of the affected package, e.g. `package codec_test`
or `package szse_bin_test`, whatever the existing tests of that directory use) that FAILS with your change and
PASSES on the unchanged tree. It must use only the library's public API. If the breakage is a data race /
interleaving, the demo may require `go test -race` (say so with the word "race" in meta.md) and must then fail
reliably (>= 9 of 10 runs).

Changes that earlier rounds already produced for this property - yours must be of a DIFFERENT nature
(different mechanism, different code site, different trigger):
{earlier(pid) or '(none)'}

Prefer sites the earlier ones did not touch (other protocol modules, other helpers, other message types,
generated message files as well as codec/). Subtle is better than blatant; small is better than large.

DELIVERABLES, all three in the directory /tmp/mut/out/{pid}{rnd}/ (create it):
  patch.diff    - `git -C {wt} diff` of your change (source only, not the demo)
  demo_test.go  - the demonstration (state in meta.md the directory it must be placed in)
  meta.md       - with these sections: '# {pid}{rnd} - <one-line title>', '## Property broken',
                  '## The change (<site>)', '## What is needed for it to manifest', '## Demo',
                  '## Commands run and outcomes'
Before finishing, verify yourself: (a) `git stash` or reverse-apply → demo passes on the unchanged tree;
(b) with the change: full suite passes; (c) with the change: demo fails. Leave the worktree WITH your change
applied and without the demo file. Report in your final message a 5-line summary.
"""
    open(os.path.join(out, pid + rnd + '.txt'), 'w').write(txt)
print('wrote', len(props))
