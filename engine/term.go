package main

// Hash-consed SMT terms with constant folding, a linear normal form for 64-bit
// expressions and an interval-aware simplifier.  W>0: bit-vector width, W==0: Bool,
// W==-1: Array (BV64 -> BV8).

import (
	"fmt"
	"math/big"
	"sort"
	"strconv"
	"strings"
)

type Term struct {
	id   int
	Op   string
	W    int
	Val  uint64
	Name string
	Args []*Term
	P1   int
	P2   int
	lin  *Lin
}

type Lin struct {
	c     int64
	atoms []*Term
	coefs []int64
}

type termKey struct {
	op         string
	w          int
	val        uint64
	name       string
	p1, p2     int
	n          int
	a0, a1, a2 int
	rest       string
}

var (
	tcount int
	hc     = map[termKey]*Term{}
)

func mk(op string, w int, val uint64, name string, p1, p2 int, args ...*Term) *Term {
	k := termKey{op: op, w: w, val: val, name: name, p1: p1, p2: p2, n: len(args)}
	switch {
	case len(args) > 3:
		var sb strings.Builder
		for _, a := range args {
			sb.WriteString(strconv.Itoa(a.id))
			sb.WriteByte('|')
		}
		k.rest = sb.String()
	default:
		if len(args) > 0 {
			k.a0 = args[0].id
		}
		if len(args) > 1 {
			k.a1 = args[1].id
		}
		if len(args) > 2 {
			k.a2 = args[2].id
		}
	}
	if t, ok := hc[k]; ok {
		return t
	}
	tcount++
	t := &Term{id: tcount, Op: op, W: w, Val: val, Name: name, Args: args, P1: p1, P2: p2}
	hc[k] = t
	return t
}

func mask(w int) uint64 {
	if w >= 64 {
		return ^uint64(0)
	}
	return (uint64(1) << uint(w)) - 1
}
func C(w int, v uint64) *Term      { return mk("const", w, v&mask(w), "", 0, 0) }
func CI(v int64) *Term             { return C(64, uint64(v)) }
func Var(name string, w int) *Term { return mk("var", w, 0, name, 0, 0) }
func ArrVar(name string) *Term     { return mk("var", -1, 0, name, 0, 0) }
func Select(a, i *Term) *Term      { return mk("select", 8, 0, "", 0, 0, a, i) }

var True = mk("true", 0, 0, "", 0, 0)
var False = mk("false", 0, 0, "", 0, 0)

func B(b bool) *Term {
	if b {
		return True
	}
	return False
}
func (t *Term) IsConst() bool     { return t.Op == "const" }
func (t *Term) IsBoolConst() bool { return t.Op == "true" || t.Op == "false" }
func sext(v uint64, w int) int64 {
	if w >= 64 {
		return int64(v)
	}
	if v&(1<<uint(w-1)) != 0 {
		return int64(v | ^mask(w))
	}
	return int64(v)
}

// ---------------------------------------------------------------- linear forms (width 64)

func linOf(t *Term) *Lin {
	if t.Op == "const" {
		return &Lin{c: int64(t.Val)}
	}
	if t.lin != nil {
		return t.lin
	}
	return &Lin{atoms: []*Term{t}, coefs: []int64{1}}
}
func linCombine(a *Lin, b *Lin, sb int64) *Lin {
	m := map[*Term]int64{}
	for i, x := range a.atoms {
		m[x] += a.coefs[i]
	}
	for i, x := range b.atoms {
		m[x] += sb * b.coefs[i]
	}
	r := &Lin{c: a.c + sb*b.c}
	var ks []*Term
	for k, v := range m {
		if v != 0 {
			ks = append(ks, k)
		}
	}
	sort.Slice(ks, func(i, j int) bool { return ks[i].id < ks[j].id })
	for _, k := range ks {
		r.atoms = append(r.atoms, k)
		r.coefs = append(r.coefs, m[k])
	}
	return r
}
func fromLin(l *Lin) *Term {
	if len(l.atoms) == 0 {
		return CI(l.c)
	}
	if len(l.atoms) == 1 && l.coefs[0] == 1 && l.c == 0 {
		return l.atoms[0]
	}
	// positive unit coefficients first, so that "a - b" prints as bvsub (no 64-bit multiplier for -1)
	var acc *Term
	order := make([]int, 0, len(l.atoms))
	for i := range l.atoms {
		if l.coefs[i] > 0 {
			order = append(order, i)
		}
	}
	for i := range l.atoms {
		if l.coefs[i] <= 0 {
			order = append(order, i)
		}
	}
	for _, i := range order {
		a := l.atoms[i]
		switch {
		case l.coefs[i] == 1:
			if acc == nil {
				acc = a
			} else {
				acc = mk("bvadd", 64, 0, "", 0, 0, acc, a)
			}
		case l.coefs[i] == -1:
			if acc == nil {
				acc = mk("bvneg", 64, 0, "", 0, 0, a)
			} else {
				acc = mk("bvsub", 64, 0, "", 0, 0, acc, a)
			}
		default:
			x := mk("bvmul", 64, 0, "", 0, 0, CI(l.coefs[i]), a)
			if acc == nil {
				acc = x
			} else {
				acc = mk("bvadd", 64, 0, "", 0, 0, acc, x)
			}
		}
	}
	if l.c != 0 {
		acc = mk("bvadd", 64, 0, "", 0, 0, acc, CI(l.c))
	}
	if acc.lin == nil {
		acc.lin = l
	}
	return acc
}
func MulC(a *Term, k int64) *Term {
	if a.W != 64 {
		panic("MulC width")
	}
	l := linOf(a)
	r := &Lin{c: l.c * k}
	if k != 0 {
		for i, x := range l.atoms {
			r.atoms = append(r.atoms, x)
			r.coefs = append(r.coefs, l.coefs[i]*k)
		}
	}
	return fromLin(r)
}

func Add(a, b *Term) *Term {
	if a.W != b.W {
		panic(fmt.Sprintf("Add width %d vs %d", a.W, b.W))
	}
	if a.W == 64 {
		return fromLin(linCombine(linOf(a), linOf(b), 1))
	}
	if a.IsConst() && b.IsConst() {
		return C(a.W, a.Val+b.Val)
	}
	if a.IsConst() && a.Val == 0 {
		return b
	}
	if b.IsConst() && b.Val == 0 {
		return a
	}
	return mk("bvadd", a.W, 0, "", 0, 0, a, b)
}
func Sub(a, b *Term) *Term {
	if a.W != b.W {
		panic(fmt.Sprintf("Sub width %d vs %d", a.W, b.W))
	}
	if a.W == 64 {
		return fromLin(linCombine(linOf(a), linOf(b), -1))
	}
	if a.IsConst() && b.IsConst() {
		return C(a.W, a.Val-b.Val)
	}
	if b.IsConst() && b.Val == 0 {
		return a
	}
	if a == b {
		return C(a.W, 0)
	}
	return mk("bvsub", a.W, 0, "", 0, 0, a, b)
}
func Mul(a, b *Term) *Term {
	if a.IsConst() && b.IsConst() {
		return C(a.W, a.Val*b.Val)
	}
	if a.W == 64 {
		if a.IsConst() {
			return MulC(b, int64(a.Val))
		}
		if b.IsConst() {
			return MulC(a, int64(b.Val))
		}
	}
	return mk("bvmul", a.W, 0, "", 0, 0, a, b)
}

// ---------------------------------------------------------------- intervals

// varBounds: signed bounds registered for 64-bit variables.  A bound is only ever registered
// together with the matching assertion in the path condition of the state that created the
// variable (Engine.boundedVar), so every state in which the variable occurs implies it.
var varBounds = map[*Term][2]int64{}

var (
	bigMin = big.NewInt(0).SetInt64(-1 << 62)
	bigMax = big.NewInt(0).SetInt64(1 << 62)
)

func atomBounds(a *Term) (int64, int64, bool) {
	if b, ok := varBounds[a]; ok {
		return b[0], b[1], true
	}
	switch a.Op {
	case "const":
		return int64(a.Val), int64(a.Val), a.W == 64
	case "zext":
		if a.Args[0].W >= 63 {
			return 0, 0, false
		}
		if u, ok := ubOf(a.Args[0]); ok {
			return 0, int64(u), true
		}
		return 0, int64(mask(a.Args[0].W)), true
	case "sext":
		w := a.Args[0].W
		if w >= 63 {
			return 0, 0, false
		}
		return -(int64(1) << uint(w-1)), (int64(1) << uint(w-1)) - 1, true
	case "ite":
		l1, h1, ok1 := boundsOf(a.Args[1])
		l2, h2, ok2 := boundsOf(a.Args[2])
		if ok1 && ok2 {
			return min(l1, l2), max(h1, h2), true
		}
	}
	return 0, 0, false
}

// boundsOf: signed bounds of a 64-bit term such that the wrapped value equals the mathematical value
// of its linear form (no overflow anywhere in [-2^62, 2^62]).
type boundsEntry struct {
	lo, hi int64
	ok     bool
}

var boundsMemo = map[*Term]boundsEntry{}
var ubMemo = map[*Term]boundsEntry{}

func boundsOf(t *Term) (int64, int64, bool) {
	if t.W != 64 {
		return 0, 0, false
	}
	if t.Op == "const" {
		return int64(t.Val), int64(t.Val), true
	}
	if e, ok := boundsMemo[t]; ok {
		return e.lo, e.hi, e.ok
	}
	lo, hi, ok := boundsOfRaw(t)
	if ok || t.Op == "ite" {
		// negative results are only cached for ite terms (their atoms' bounds are registered before they are built);
		// a variable may get its bound registered later
		boundsMemo[t] = boundsEntry{lo, hi, ok}
	}
	return lo, hi, ok
}

func boundsOfRaw(t *Term) (int64, int64, bool) {
	if t.Op == "ite" && t.lin == nil {
		return atomBounds(t)
	}
	l := linOf(t)
	lo, hi := big.NewInt(l.c), big.NewInt(l.c)
	for i, a := range l.atoms {
		al, ah, ok := atomBounds(a)
		if !ok {
			return 0, 0, false
		}
		c := big.NewInt(l.coefs[i])
		x := new(big.Int).Mul(c, big.NewInt(al))
		y := new(big.Int).Mul(c, big.NewInt(ah))
		if x.Cmp(y) > 0 {
			x, y = y, x
		}
		lo.Add(lo, x)
		hi.Add(hi, y)
	}
	if lo.Cmp(bigMin) < 0 || hi.Cmp(bigMax) > 0 {
		return 0, 0, false
	}
	return lo.Int64(), hi.Int64(), true
}

// unsigned upper bound, if cheaply known
func ubOf(t *Term) (uint64, bool) {
	if t.Op == "const" {
		return t.Val, true
	}
	if e, ok := ubMemo[t]; ok {
		return uint64(e.hi), e.ok
	}
	u, ok := ubOfRaw(t)
	if ok {
		ubMemo[t] = boundsEntry{0, int64(u), ok}
	}
	return u, ok
}

func ubOfRaw(t *Term) (uint64, bool) {
	switch t.Op {
	case "const":
		return t.Val, true
	case "zext":
		if u, ok := ubOf(t.Args[0]); ok {
			return u, true
		}
		return mask(t.Args[0].W), true
	case "bvadd":
		if t.W >= 64 {
			break
		}
		a, ok1 := ubOf(t.Args[0])
		b, ok2 := ubOf(t.Args[1])
		if ok1 && ok2 && a+b <= mask(t.W) && a+b >= a {
			return a + b, true
		}
	case "ite":
		a, ok1 := ubOf(t.Args[1])
		b, ok2 := ubOf(t.Args[2])
		if ok1 && ok2 {
			return max(a, b), true
		}
	case "bvand":
		a, ok1 := ubOf(t.Args[0])
		b, ok2 := ubOf(t.Args[1])
		if ok1 && ok2 {
			return min(a, b), true
		}
		if ok1 {
			return a, true
		}
		if ok2 {
			return b, true
		}
	case "bvlshr":
		if t.Args[1].IsConst() && t.Args[1].Val < 64 {
			if a, ok := ubOf(t.Args[0]); ok {
				return a >> t.Args[1].Val, true
			}
		}
	case "bvurem":
		if t.Args[1].IsConst() && t.Args[1].Val > 0 {
			return t.Args[1].Val - 1, true
		}
	}
	if t.W == 64 {
		if lo, hi, ok := boundsOf(t); ok && lo >= 0 {
			return uint64(hi), true
		}
		return 0, false
	}
	if t.W > 0 && t.W < 64 {
		return mask(t.W), true
	}
	return 0, false
}

// ---------------------------------------------------------------- boolean / comparison

func diffConst(a, b *Term) (int64, bool) {
	if a.W != 64 {
		if a.IsConst() && b.IsConst() {
			return sext(a.Val, a.W) - sext(b.Val, b.W), true
		}
		if a == b {
			return 0, true
		}
		return 0, false
	}
	d := linCombine(linOf(a), linOf(b), -1)
	if len(d.atoms) == 0 {
		return d.c, true
	}
	return 0, false
}

func Eq(a, b *Term) *Term {
	if a == b {
		return True
	}
	if a.W != b.W {
		panic(fmt.Sprintf("Eq width %d vs %d", a.W, b.W))
	}
	if a.W == 0 {
		if a.IsBoolConst() && b.IsBoolConst() {
			return B(a == b)
		}
		if a == True {
			return b
		}
		if b == True {
			return a
		}
		if a == False {
			return Not(b)
		}
		if b == False {
			return Not(a)
		}
		return mk("=", 0, 0, "", 0, 0, a, b)
	}
	if a.W == -1 {
		return mk("=", 0, 0, "", 0, 0, a, b)
	}
	// equality modulo 2^w: a constant difference decides it (ring arithmetic, no overflow issue)
	if d, ok := diffConst(a, b); ok {
		return B(d == 0)
	}
	if a.W == 64 {
		if lo, hi, ok := boundsOf(Sub(a, b)); ok && (lo > 0 || hi < 0) {
			// |a-b| < 2^62 and non-zero mathematically => non-zero mod 2^64
			return False
		}
		// normal form (ring equality modulo 2^64): atoms == constant
		d := linCombine(linOf(a), linOf(b), -1)
		if len(d.atoms) > 0 && (len(linOf(a).atoms) > 0 && len(linOf(b).atoms) > 0 || linOf(a).c != 0 && len(linOf(a).atoms) > 0 || linOf(b).c != 0 && len(linOf(b).atoms) > 0) {
			p := &Lin{atoms: d.atoms, coefs: d.coefs}
			k := -d.c
			if d.coefs[0] < 0 {
				neg := &Lin{atoms: d.atoms}
				for _, c := range d.coefs {
					neg.coefs = append(neg.coefs, -c)
				}
				p, k = neg, d.c
			}
			l, r := fromLin(p), CI(k)
			if l.id > r.id {
				l, r = r, l
			}
			return mk("=", 0, 0, "", 0, 0, l, r)
		}
	} else {
		ua, ok1 := ubOf(a)
		ub, ok2 := ubOf(b)
		if ok1 && b.IsConst() && b.Val > ua {
			return False
		}
		if ok2 && a.IsConst() && a.Val > ub {
			return False
		}
	}
	if a.id > b.id {
		a, b = b, a
	}
	// ite with constant arms against a constant
	if b.IsConst() && a.Op == "ite" || a.IsConst() && b.Op == "ite" {
		it, c := a, b
		if a.IsConst() {
			it, c = b, a
		}
		if it.Args[1].IsConst() && it.Args[2].IsConst() {
			return Ite(it.Args[0], B(it.Args[1].Val == c.Val), B(it.Args[2].Val == c.Val))
		}
	}
	return mk("=", 0, 0, "", 0, 0, a, b)
}
func Not(a *Term) *Term {
	if a == True {
		return False
	}
	if a == False {
		return True
	}
	if a.Op == "not" {
		return a.Args[0]
	}
	return mk("not", 0, 0, "", 0, 0, a)
}
func And(xs ...*Term) *Term {
	var out []*Term
	seen := map[*Term]bool{}
	for _, x := range xs {
		if x == False {
			return False
		}
		if x == True || seen[x] {
			continue
		}
		if x.Op == "and" {
			for _, y := range x.Args {
				if !seen[y] {
					seen[y] = true
					out = append(out, y)
				}
			}
			continue
		}
		seen[x] = true
		out = append(out, x)
	}
	for _, x := range out {
		if seen[Not(x)] && x.Op != "not" {
			return False
		}
	}
	if len(out) == 0 {
		return True
	}
	if len(out) == 1 {
		return out[0]
	}
	return mk("and", 0, 0, "", 0, 0, out...)
}
func Or(xs ...*Term) *Term {
	var out []*Term
	seen := map[*Term]bool{}
	for _, x := range xs {
		if x == True {
			return True
		}
		if x == False || seen[x] {
			continue
		}
		seen[x] = true
		out = append(out, x)
	}
	for _, x := range out {
		if seen[Not(x)] && x.Op != "not" {
			return True
		}
	}
	if len(out) == 0 {
		return False
	}
	if len(out) == 1 {
		return out[0]
	}
	return mk("or", 0, 0, "", 0, 0, out...)
}
func Implies(a, b *Term) *Term { return Or(Not(a), b) }
func Ite(c, a, b *Term) *Term {
	if c == True {
		return a
	}
	if c == False {
		return b
	}
	if a == b {
		return a
	}
	if a.W != b.W {
		panic(fmt.Sprintf("Ite width %d vs %d", a.W, b.W))
	}
	if a.W == 0 {
		if a == True && b == False {
			return c
		}
		if a == False && b == True {
			return Not(c)
		}
		return Or(And(c, a), And(Not(c), b))
	}
	if c.Op == "not" {
		return Ite(c.Args[0], b, a)
	}
	return mk("ite", a.W, 0, "", 0, 0, c, a, b)
}

// Lt: signed/unsigned less-than.  Folding on 64-bit linear forms only happens when both sides have
// known overflow-free bounds, so the wrapped comparison equals the mathematical one.
func Lt(a, b *Term, signed bool) *Term {
	if a.W != b.W {
		panic(fmt.Sprintf("Lt width %d vs %d", a.W, b.W))
	}
	if a.IsConst() && b.IsConst() {
		if signed {
			return B(sext(a.Val, a.W) < sext(b.Val, b.W))
		}
		return B(a.Val < b.Val)
	}
	if a == b {
		return False
	}
	if a.W == 64 {
		la, ha, ok1 := boundsOf(a)
		lb, hb, ok2 := boundsOf(b)
		if ok1 && ok2 && (signed || (la >= 0 && lb >= 0)) {
			if ha < lb {
				return True
			}
			if la >= hb {
				return False
			}
			if lo, hi, ok := boundsOf(Sub(a, b)); ok {
				if hi < 0 {
					return True
				}
				if lo >= 0 {
					return False
				}
				// normal form: all quantities are overflow-free, so a < b  <=>  atoms < constant
				d := linCombine(linOf(a), linOf(b), -1)
				if len(d.atoms) > 0 {
					allNeg := true
					for _, c := range d.coefs {
						if c > 0 {
							allNeg = false
						}
					}
					if allNeg {
						neg := &Lin{atoms: d.atoms}
						for _, c := range d.coefs {
							neg.coefs = append(neg.coefs, -c)
						}
						// -P < -c  <=>  c < P
						return mk("bvslt", 0, 0, "", 0, 0, CI(d.c), fromLin(neg))
					}
					return mk("bvslt", 0, 0, "", 0, 0, fromLin(&Lin{atoms: d.atoms, coefs: d.coefs}), CI(-d.c))
				}
			}
		}
	} else if !signed {
		ua, ok1 := ubOf(a)
		if ok1 && b.IsConst() && ua < b.Val {
			return True
		}
		ub, ok2 := ubOf(b)
		if ok2 && a.IsConst() && a.Val >= ub && (b.IsConst() || a.Val > ub) {
			return False
		}
	} else {
		// signed small width with both provably non-negative
		ua, ok1 := ubOf(a)
		ub, ok2 := ubOf(b)
		half := uint64(1) << uint(a.W-1)
		if ok1 && ok2 && ua < half && ub < half {
			if b.IsConst() && ua < b.Val {
				return True
			}
			if a.IsConst() && a.Val >= ub && (b.IsConst() || a.Val > ub) {
				return False
			}
		}
	}
	op := "bvult"
	if signed {
		op = "bvslt"
	}
	return mk(op, 0, 0, "", 0, 0, a, b)
}
func Le(a, b *Term, signed bool) *Term { return Not(Lt(b, a, signed)) }

// ---------------------------------------------------------------- bit-vector structure

func Extract(hi, lo int, a *Term) *Term {
	if hi-lo+1 == a.W {
		return a
	}
	if a.IsConst() {
		return C(hi-lo+1, a.Val>>uint(lo))
	}
	switch a.Op {
	case "concat":
		pos := a.W
		for _, x := range a.Args {
			l := pos - x.W
			if hi < pos && lo >= l {
				return Extract(hi-l, lo-l, x)
			}
			pos = l
		}
	case "zext":
		if hi < a.Args[0].W {
			return Extract(hi, lo, a.Args[0])
		}
		if lo >= a.Args[0].W {
			return C(hi-lo+1, 0)
		}
		if lo == 0 {
			return ZExt(a.Args[0], hi+1)
		}
	case "sext":
		if hi < a.Args[0].W {
			return Extract(hi, lo, a.Args[0])
		}
	case "extract":
		return Extract(hi+a.P2, lo+a.P2, a.Args[0])
	case "ite":
		if a.Args[1].IsConst() || a.Args[2].IsConst() {
			return Ite(a.Args[0], Extract(hi, lo, a.Args[1]), Extract(hi, lo, a.Args[2]))
		}
	case "bvadd":
		if lo == 0 && a.W < 64 {
			return Add(Extract(hi, 0, a.Args[0]), Extract(hi, 0, a.Args[1]))
		}
	case "bvand", "bvor", "bvxor":
		if a.Args[0].IsConst() || a.Args[1].IsConst() {
			return Bin(a.Op, Extract(hi, lo, a.Args[0]), Extract(hi, lo, a.Args[1]))
		}
	}
	if a.W == 64 && lo == 0 && a.lin != nil {
		// extract distributes over + and constant multiples modulo 2^(hi+1)
		w := hi + 1
		acc := C(w, uint64(a.lin.c))
		for i, x := range a.lin.atoms {
			ex := Extract(hi, 0, x)
			if a.lin.coefs[i] != 1 {
				ex = mk("bvmul", w, 0, "", 0, 0, C(w, uint64(a.lin.coefs[i])), ex)
			}
			acc = Add(acc, ex)
		}
		return acc
	}
	return mk("extract", hi-lo+1, 0, "", hi, lo, a)
}

func Concat(xs ...*Term) *Term {
	if len(xs) == 1 {
		return xs[0]
	}
	w := 0
	allc := true
	for _, x := range xs {
		w += x.W
		if !x.IsConst() {
			allc = false
		}
	}
	if allc && w <= 64 {
		var v uint64
		for _, x := range xs {
			v = v<<uint(x.W) | x.Val
		}
		return C(w, v)
	}
	// fold adjacent extracts of the same source
	if base := xs[0]; base.Op == "extract" {
		src := base.Args[0]
		next := base.P2
		ok := true
		for _, x := range xs[1:] {
			if x.Op != "extract" || x.Args[0] != src || x.P1 != next-1 {
				ok = false
				break
			}
			next = x.P2
		}
		if ok {
			return Extract(base.P1, next, src)
		}
	}
	// leading zero constants -> zext
	if xs[0].IsConst() && xs[0].Val == 0 {
		rest := Concat(xs[1:]...)
		return ZExt(rest, w)
	}
	return mk("concat", w, 0, "", 0, 0, xs...)
}

func ZExt(a *Term, w int) *Term {
	if w == a.W {
		return a
	}
	if w < a.W {
		panic("ZExt narrowing")
	}
	if a.IsConst() {
		return C(w, a.Val)
	}
	if a.Op == "extract" && a.P2 == 0 && a.Args[0].W == w {
		if u, ok := ubOf(a.Args[0]); ok && u <= mask(a.W) {
			return a.Args[0]
		}
	}
	if a.Op == "zext" {
		return ZExt(a.Args[0], w)
	}
	if a.Op == "ite" && (a.Args[1].IsConst() || a.Args[2].IsConst()) {
		return Ite(a.Args[0], ZExt(a.Args[1], w), ZExt(a.Args[2], w))
	}
	return mk("zext", w, 0, "", w-a.W, 0, a)
}
func SExt(a *Term, w int) *Term {
	if w == a.W {
		return a
	}
	if a.IsConst() {
		return C(w, uint64(sext(a.Val, a.W)))
	}
	if u, ok := ubOf(a); ok && u < uint64(1)<<uint(a.W-1) {
		return ZExt(a, w)
	}
	if a.Op == "ite" && (a.Args[1].IsConst() || a.Args[2].IsConst()) {
		return Ite(a.Args[0], SExt(a.Args[1], w), SExt(a.Args[2], w))
	}
	return mk("sext", w, 0, "", w-a.W, 0, a)
}

func log2(v uint64) int {
	k := 0
	for (uint64(1) << uint(k)) < v {
		k++
	}
	return k
}

func Bin(op string, a, b *Term) *Term {
	if a.W != b.W {
		panic(fmt.Sprintf("%s width %d vs %d", op, a.W, b.W))
	}
	if a.IsConst() && b.IsConst() {
		switch op {
		case "bvand":
			return C(a.W, a.Val&b.Val)
		case "bvor":
			return C(a.W, a.Val|b.Val)
		case "bvxor":
			return C(a.W, a.Val^b.Val)
		case "bvlshr":
			if b.Val >= 64 {
				return C(a.W, 0)
			}
			return C(a.W, a.Val>>b.Val)
		case "bvashr":
			sh := b.Val
			if sh >= 64 {
				sh = 63
			}
			return C(a.W, uint64(sext(a.Val, a.W)>>sh))
		case "bvshl":
			if b.Val >= 64 {
				return C(a.W, 0)
			}
			return C(a.W, a.Val<<b.Val)
		case "bvurem":
			if b.Val != 0 {
				return C(a.W, a.Val%b.Val)
			}
		case "bvudiv":
			if b.Val != 0 {
				return C(a.W, a.Val/b.Val)
			}
		case "bvsrem":
			if b.Val != 0 {
				x, y := sext(a.Val, a.W), sext(b.Val, b.W)
				if !(y == -1) {
					return C(a.W, uint64(x%y))
				}
				return C(a.W, 0)
			}
		case "bvsdiv":
			if b.Val != 0 {
				x, y := sext(a.Val, a.W), sext(b.Val, b.W)
				if y != -1 {
					return C(a.W, uint64(x/y))
				}
				return C(a.W, uint64(-x))
			}
		}
	}
	if (op == "bvsrem" || op == "bvurem") && b.IsConst() && b.Val != 0 && b.Val&(b.Val-1) == 0 && sext(b.Val, b.W) > 0 {
		if u, ok := ubOf(a); ok && (op == "bvurem" || u < uint64(1)<<uint(a.W-1)) {
			k := log2(b.Val)
			if k == 0 {
				return C(a.W, 0)
			}
			if k >= a.W {
				return a
			}
			return ZExt(Extract(k-1, 0, a), a.W)
		}
		if op == "bvurem" {
			k := log2(b.Val)
			if k == 0 {
				return C(a.W, 0)
			}
			return ZExt(Extract(k-1, 0, a), a.W)
		}
	}
	if op == "bvand" {
		if a.IsConst() {
			a, b = b, a
		}
		if b.IsConst() {
			if b.Val == 0 {
				return C(a.W, 0)
			}
			if b.Val == mask(a.W) {
				return a
			}
			if (b.Val+1)&b.Val == 0 { // low mask
				k := log2(b.Val + 1)
				return ZExt(Extract(k-1, 0, a), a.W)
			}
		}
		if a == b {
			return a
		}
	}
	if op == "bvor" || op == "bvxor" {
		if a.IsConst() && a.Val == 0 {
			return b
		}
		if b.IsConst() && b.Val == 0 {
			return a
		}
	}
	if (op == "bvlshr" || op == "bvshl" || op == "bvashr") && b.IsConst() && b.Val == 0 {
		return a
	}
	if op == "bvlshr" && b.IsConst() && int(b.Val) < a.W {
		return ZExt(Extract(a.W-1, int(b.Val), a), a.W)
	}
	if op == "bvshl" && b.IsConst() && int(b.Val) < a.W && a.W <= 64 {
		k := int(b.Val)
		return Concat(Extract(a.W-1-k, 0, a), C(k, 0))
	}
	return mk(op, a.W, 0, "", 0, 0, a, b)
}

// ---------------------------------------------------------------- printing

func sortOf(t *Term) string {
	if t.W == -1 {
		return "(Array (_ BitVec 64) (_ BitVec 8))"
	}
	if t.W == 0 {
		return "Bool"
	}
	return fmt.Sprintf("(_ BitVec %d)", t.W)
}
func ref(t *Term) string {
	switch t.Op {
	case "const":
		return fmt.Sprintf("(_ bv%d %d)", t.Val, t.W)
	case "var":
		return t.Name
	case "true", "false":
		return t.Op
	}
	return fmt.Sprintf("t%d", t.id)
}
func body(t *Term) string {
	var sb strings.Builder
	switch t.Op {
	case "extract":
		fmt.Fprintf(&sb, "((_ extract %d %d) %s)", t.P1, t.P2, ref(t.Args[0]))
	case "zext":
		fmt.Fprintf(&sb, "((_ zero_extend %d) %s)", t.P1, ref(t.Args[0]))
	case "sext":
		fmt.Fprintf(&sb, "((_ sign_extend %d) %s)", t.P1, ref(t.Args[0]))
	default:
		sb.WriteString("(" + t.Op)
		for _, a := range t.Args {
			sb.WriteString(" " + ref(a))
		}
		sb.WriteString(")")
	}
	return sb.String()
}

// ---------------------------------------------------------------- concrete evaluation under a model

type Model struct {
	vars map[string]uint64            // bit-vector and Bool (0/1) variables
	arrs map[string]map[uint64]uint64 // array variables: explicit entries
	dflt map[string]uint64
}

func (m *Model) Eval(t *Term) uint64 {
	memo := map[*Term]uint64{}
	return m.eval(t, memo)
}
func (m *Model) eval(t *Term, memo map[*Term]uint64) uint64 {
	if v, ok := memo[t]; ok {
		return v
	}
	var r uint64
	a := func(i int) uint64 { return m.eval(t.Args[i], memo) }
	bo := func(b bool) uint64 {
		if b {
			return 1
		}
		return 0
	}
	switch t.Op {
	case "const":
		r = t.Val
	case "true":
		r = 1
	case "false":
		r = 0
	case "var":
		r = m.vars[t.Name]
	case "select":
		arr := t.Args[0]
		idx := a(1)
		if e, ok := m.arrs[arr.Name]; ok {
			if v, ok := e[idx]; ok {
				r = v
				break
			}
		}
		r = m.dflt[arr.Name]
	case "not":
		r = 1 - a(0)
	case "and":
		r = 1
		for i := range t.Args {
			if a(i) == 0 {
				r = 0
				break
			}
		}
	case "or":
		r = 0
		for i := range t.Args {
			if a(i) == 1 {
				r = 1
				break
			}
		}
	case "=":
		r = bo(a(0) == a(1))
	case "ite":
		if a(0) == 1 {
			r = a(1)
		} else {
			r = a(2)
		}
	case "bvult":
		r = bo(a(0) < a(1))
	case "bvslt":
		r = bo(sext(a(0), t.Args[0].W) < sext(a(1), t.Args[1].W))
	case "bvadd":
		r = (a(0) + a(1)) & mask(t.W)
	case "bvsub":
		r = (a(0) - a(1)) & mask(t.W)
	case "bvmul":
		r = (a(0) * a(1)) & mask(t.W)
	case "bvneg":
		r = (-a(0)) & mask(t.W)
	case "extract":
		r = (a(0) >> uint(t.P2)) & mask(t.W)
	case "zext":
		r = a(0)
	case "sext":
		r = uint64(sext(a(0), t.Args[0].W)) & mask(t.W)
	case "concat":
		for i, x := range t.Args {
			r = r<<uint(x.W) | a(i)
		}
	default:
		c := Bin(t.Op, C(t.W, a(0)), C(t.W, a(1)))
		if !c.IsConst() {
			panic("model eval: " + t.Op)
		}
		r = c.Val
	}
	memo[t] = r
	return r
}

func dumpTerm(t *Term, depth int) string {
	if t.Op == "const" {
		return fmt.Sprintf("%d:%d", t.Val, t.W)
	}
	if t.Op == "var" || t.Op == "true" || t.Op == "false" {
		return ref(t)
	}
	if depth == 0 {
		return "..."
	}
	var sb strings.Builder
	sb.WriteString("(" + t.Op)
	if t.Op == "extract" {
		fmt.Fprintf(&sb, "[%d:%d]", t.P1, t.P2)
	}
	for _, a := range t.Args {
		sb.WriteString(" " + dumpTerm(a, depth-1))
	}
	sb.WriteString(")")
	return sb.String()
}
