package main

// C06 (append-only, context-free, repeatable), C07 (exact consumption, streaming), C11 (truncation rejected).

import (
	"fmt"
	"strings"
)

func init() {
	drivers["C06"] = &Driver{Prop: "C06", Level: "model_checking",
		Explain: "for every type/key/shape: the real Encode runs three times on the same wide symbolic value - into an empty buffer, into a buffer already holding H symbolic unread bytes (R consumed), and again on the message object as left by the first run; the prior bytes must be untouched and all three appended byte strings equal. One step from an arbitrary prior buffer gives the concatenation property for sequences by induction.",
		Assume:  []string{"standard-library contracts listed under trusted_base", "bounds as stated"},
		Bounds: func(tier string) map[string]any {
			if tier == "thorough" {
				return map[string]any{"H": "1,3", "R": "0,2", "list_lengths": "uniform 0..3", "prefixed_text_max": 12, "domain": "wide"}
			}
			return map[string]any{"H": "2", "R": "0", "list_lengths": "uniform 0,1,2", "prefixed_text_max": 4, "domain": "wide"}
		},
		Items: func(c *Ctx) []Item {
			ns := []int{0, 1, 2}
			hs := []int{2}
			if c.thorough() {
				ns = []int{0, 1, 2, 3}
				hs = []int{1, 3}
			}
			var items []Item
			for _, mc := range c.msgCases(ns, c.thorough(), false) {
				for _, H := range hs {
					mc, H := mc, H
					items = append(items, Item{ID: fmt.Sprintf("%s/H=%d", mc.ID(), H), Run: func(c *Ctx) { c06(c, mc, H) }})
				}
			}
			// a buffer that already holds a lot (symbolic amount, up to 1 MiB, of unread bytes): limits, thresholds and
			// offsets computed from the buffer's length instead of the frame's
			seenFrame := map[string]bool{}
			for _, mc := range c.msgCases([]int{0}, false, false) {
				fi := c.frameInfo(mc.Mod, mc.Typ)
				if fi == nil || (seenFrame[mc.Mod+"."+mc.Typ] && !c.thorough()) {
					continue
				}
				seenFrame[mc.Mod+"."+mc.Typ] = true
				mc := mc
				items = append(items, Item{ID: "bighistory:" + mc.ID(), Run: func(c *Ctx) { c06bigHistory(c, mc) }})
			}
			// a failed Encode (body with a text too long for its prefix) must leave nothing behind that a later
			// Encode of another message picks up (staging buffers, pools, caches filled on the error path)
			for _, mod := range modules {
				ms := c.sc.Mods[mod]
				for _, tn := range ms.TypeNames() {
					bf := ms.Types[tn].BodyField()
					if bf == nil {
						continue
					}
					for k, en := range ms.Tables[bf.Table].Entries {
						bt := ms.Types[en[1].(string)]
						// the last such field: everything in front of it has been written when the refusal comes
						last := -1
						for fi, f := range bt.Fields {
							if f.Kind == "pstr" && typeWidth(f.Prefix) <= 16 {
								last = fi
							}
						}
						if last >= 0 {
							mod, tn, k, fi := mod, tn, k, last
							items = append(items, Item{ID: fmt.Sprintf("afterfail:%s.%s/key=%d/%s", mod, tn, k, bt.Fields[last].Go), Run: func(c *Ctx) { c06afterFail(c, mod, tn, k, fi) }})
						}
					}
				}
			}
			return items
		}}
	drivers["C07"] = &Driver{Prop: "C07", Level: "model_checking",
		Explain: "(a) real Encode of a canonical symbolic value, then a symbolic tail (symbolic length and bytes) is appended and the real Decode runs: it must succeed, return the value, and leave exactly the tail unread; (b) two independent symbolic messages encoded back to back are recovered by two decodes, buffer empty. The n-message statement follows from (a) by induction over an arbitrary tail.",
		Assume:  []string{"standard-library contracts listed under trusted_base", "bounds as stated"},
		Bounds: func(tier string) map[string]any {
			if tier == "thorough" {
				return map[string]any{"tail_length": "0..8 symbolic", "list_lengths": "uniform 0..3", "prefixed_text_max": 12, "pairs": "same type twice, every type/key"}
			}
			return map[string]any{"tail_length": "0..4 symbolic", "list_lengths": "uniform 0,1,2", "prefixed_text_max": 4, "pairs": "same type twice, every type/key"}
		},
		Items: func(c *Ctx) []Item {
			ns := []int{0, 1, 2}
			if c.thorough() {
				ns = []int{0, 1, 2, 3}
			}
			var items []Item
			for _, mc := range c.msgCases(ns, c.thorough(), false) {
				mc := mc
				items = append(items, Item{ID: "tail:" + mc.ID(), Run: func(c *Ctx) { c07tail(c, mc, false) }})
				if fi := c.frameInfo(mc.Mod, mc.Typ); fi != nil && fi.Alg != "" && mc.N <= 1 && mc.PLen == 0 {
					// the same with the checksum registry emptied before the decode: what a decoder consumes must not
					// depend on which services happen to be registered
					items = append(items, Item{ID: "tail:" + mc.ID() + "/registry=empty", Run: func(c *Ctx) { c07tail(c, mc, true) }})
				}
				if mc.N <= 1 {
					items = append(items, Item{ID: "pair:" + mc.ID(), Run: func(c *Ctx) { c07pair(c, mc) }})
				}
			}
			// list primitives at lengths far beyond the message shapes (thresholds, chunking, pre-sizing)
			for _, p := range c.primInstances() {
				p := p
				switch p.Family {
				case "WriteBasicTypeList", "WriteStringList", "WriteFixedStringList", "WriteObjectList":
				default:
					continue
				}
				if p.Family == "WriteBasicTypeList" && p.TArgs[1] != "uint16" && p.TArgs[1] != "uint8" && p.TArgs[1] != "int64" {
					continue
				}
				if p.Family == "WriteStringList" && p.TArgs[1] != "uint8" {
					continue
				}
				lens := []int{3, 33, 64, 65, 129, 255}
				if p.TArgs[0] != "uint8" {
					lens = append(lens, 256)
					if p.Family == "WriteBasicTypeList" {
						lens = append(lens, 1025)
					}
				}
				for _, n := range lens {
					n := n
					items = append(items, Item{ID: fmt.Sprintf("primlist:%s/n=%d", p.Name, n), Run: func(c *Ctx) { c07primList(c, p, n) }})
				}
			}
			return items
		}}
	drivers["C11"] = &Driver{Prop: "C11", Level: "model_checking",
		Explain: "real Encode of a canonical symbolic value yields bytes A; the real Decode runs on A[:k] with a symbolic cut point 0 <= k < len(A): every feasible path must return a non-nil error (the all-reads-succeeded path must be infeasible). One symbolic-k run covers every cut position and every content.",
		Assume:  []string{"standard-library contracts listed under trusted_base", "bounds as stated; types with an empty encoding are vacuous and listed"},
		Bounds: func(tier string) map[string]any {
			if tier == "thorough" {
				return map[string]any{"cut": "every position", "list_lengths": "uniform 0..3", "prefixed_text_max": 12}
			}
			return map[string]any{"cut": "every position", "list_lengths": "uniform 0,1,2", "prefixed_text_max": 4}
		},
		Items: func(c *Ctx) []Item {
			ns := []int{0, 1, 2}
			if c.thorough() {
				ns = []int{0, 1, 2, 3}
			}
			var items []Item
			for _, mc := range c.msgCases(ns, c.thorough(), false) {
				mc := mc
				items = append(items, Item{ID: mc.ID(), Run: func(c *Ctx) { c11(c, mc) }})
			}
			return items
		}}
}

func encOK(h *harness, fs *State) bool {
	return h.enc.Signature.Results().Len() == 0 || isNilErr(fs.ret)
}

func c06(c *Ctx, mc MsgCase, H int) {
	h := c.newHarness(mc, "wide", 0)
	e := c.e()
	s := h.s
	R := 0
	if c.thorough() && H == 3 {
		R = 2
	}
	// second copy of the same value and a buffer with history
	m2 := h.g.MaterializePtr(s, h.m)
	var prior, cons []*Term
	for i := 0; i < H; i++ {
		prior = append(prior, e.freshVar("prior", 8))
	}
	for i := 0; i < R; i++ {
		cons = append(cons, e.freshVar("consumed", 8))
	}
	buf2 := s.newObj(&Obj{Kind: kBuffer, B: VecBytes(append(append([]*Term{}, cons...), prior...)), R: CI(int64(R))})
	buf3 := s.newObj(&Obj{Kind: kBuffer, B: EmptyBytes(), R: CI(0)})
	steps := func(val func(*Term) uint64) []map[string]any {
		v := h.g.Concretize(h.m, val)
		return []map[string]any{
			step("op", "newbuf", "buf", "b1", "hex", ""),
			step("op", "newmsg", "msg", "m", "module", mc.Mod, "type", mc.Typ, "value", v),
			step("op", "encode", "msg", "m", "buf", "b1"),
			step("op", "newbuf", "buf", "b2", "hex", hexOf(make([]byte, R))+hexOf(evalTerms(prior, val)), "consume", R),
			step("op", "newmsg", "msg", "m2", "module", mc.Mod, "type", mc.Typ, "value", v),
			step("op", "encode", "msg", "m2", "buf", "b2"),
			step("op", "newbuf", "buf", "b3", "hex", ""),
			step("op", "encode", "msg", "m", "buf", "b3"),
		}
	}
	e.pushCall(s, h.enc, []Value{h.mPtr, &Ptr{Obj: h.bufID}}, nil)
	for _, f1 := range e.Run(s) {
		if c.PathProblem(f1, "Encode#1", func(val func(*Term) uint64, msg string) *Violation {
			return &Violation{Obligation: "no-panic", Detail: "Encode panics: " + msg, Replay: &ReplayReq{Steps: steps(val)[:3], Judge: Judge{Kind: "panic"}}}
		}) {
			continue
		}
		if !encOK(h, f1) {
			c.Prove(f1, "encode-succeeds", False, func(val func(*Term) uint64) *Violation {
				return &Violation{Detail: "Encode returns an error", Replay: &ReplayReq{Steps: steps(val)[:3], Judge: Judge{Kind: "err_nonnil", Step: 2}}}
			})
			continue
		}
		A := unread(f1.heap[h.bufID])
		// bytes.Buffer contract: a Bytes()/Next() view is only valid until the next modification. A view that is
		// used after a later write may point into memory the buffer has moved away from (grow slides unread data
		// down without reallocating when enough of the buffer was already consumed): candidate, decided natively
		// with a long consumed prefix.
		for _, note := range f1.notes {
			if !strings.HasPrefix(note, "stale-view") {
				continue
			}
			note := note
			c.Prove(f1, "no-stale-buffer-view", False, func(val func(*Term) uint64) *Violation {
				v := h.g.Concretize(h.m, val)
				st := []map[string]any{
					step("op", "newbuf", "buf", "b1", "hex", ""),
					step("op", "newmsg", "msg", "m", "module", mc.Mod, "type", mc.Typ, "value", v),
					step("op", "encode", "msg", "m", "buf", "b1"),
				}
				// mostly consumed buffers whose spare capacity runs out at different points of the frame
				var steps []int
				for i, spare := range []int{0, 5, 9, 12, 16, 24, 40, 64, 100, 160, 300} {
					bn, mn := fmt.Sprintf("h%d", i), fmt.Sprintf("m%d", i)
					st = append(st, step("op", "newbuf", "buf", bn, "hex", strings.Repeat("00", 4096)+"6162", "consume", 4096, "n", spare),
						step("op", "newmsg", "msg", mn, "module", mc.Mod, "type", mc.Typ, "value", v),
						step("op", "encode", "msg", mn, "buf", bn))
					steps = append(steps, len(st)-1)
				}
				// the same with the message's lists lengthened (a view goes stale only when the buffer really grows)
				big := inflate(v, 40)
				st2 := []map[string]any{
					step("op", "newbuf", "buf", "b1", "hex", "", "n", 1<<18), // reference: a buffer that never has to grow
					step("op", "newmsg", "msg", "m", "module", mc.Mod, "type", mc.Typ, "value", big),
					step("op", "encode", "msg", "m", "buf", "b1"),
				}
				var steps2 []int
				for i, spare := range []int{0, 5, 9, 12, 16, 24, 40, 64, 100, 160, 300, 600, 1200} {
					bn, mn := fmt.Sprintf("h%d", i), fmt.Sprintf("m%d", i)
					pre, cons := strings.Repeat("00", 4096)+"6162", 4096
					if i%2 == 1 {
						pre, cons = "6162", 0 // also fresh, exactly sized buffers
					}
					st2 = append(st2, step("op", "newbuf", "buf", bn, "hex", pre, "consume", cons, "n", spare),
						step("op", "newmsg", "msg", mn, "module", mc.Mod, "type", mc.Typ, "value", big),
						step("op", "encode", "msg", mn, "buf", bn))
					steps2 = append(steps2, len(st2)-1)
				}
				// ... and with every text lengthened to 700 bytes (bodies made of length-prefixed text)
				bigT := inflateText(v, 700)
				st3 := make([]map[string]any, len(st2))
				for i, sp := range st2 {
					cp := map[string]any{}
					for k, x := range sp {
						cp[k] = x
					}
					if cp["op"] == "newmsg" {
						cp["value"] = bigT
					}
					st3[i] = cp
				}
				return &Violation{Detail: "Encode depends on how much of the buffer was already consumed: " + note,
					Replay: &ReplayReq{Steps: st, Judge: Judge{Kind: "same_as_step", Step: steps[0], Step2: 2, ExpectHex: "6162", Steps: steps},
						Alt: &ReplayReq{Steps: st2, Judge: Judge{Kind: "same_as_step", Step: steps2[0], Step2: 2, ExpectHex: "6162", Steps: steps2},
							Alt: &ReplayReq{Steps: st3, Judge: Judge{Kind: "same_as_step", Step: steps2[0], Step2: 2, ExpectHex: "6162", Steps: steps2}}}}}
			})
			break // one candidate per path is enough
		}
		e.pushCall(f1, h.enc, []Value{m2, &Ptr{Obj: buf2}}, nil)
		for _, f2 := range e.Run(f1) {
			if c.PathProblem(f2, "Encode#2", func(val func(*Term) uint64, msg string) *Violation {
				return &Violation{Obligation: "no-panic", Detail: "Encode into a non-empty buffer panics: " + msg, Replay: &ReplayReq{Steps: steps(val)[:6], Judge: Judge{Kind: "panic"}}}
			}) {
				continue
			}
			mkNE := func(what string, upto int, stepIdx int, expect func(val func(*Term) uint64) string) func(val func(*Term) uint64) *Violation {
				return func(val func(*Term) uint64) *Violation {
					return &Violation{Detail: what, Model: map[string]any{"input": h.g.Concretize(h.m, val), "prior_hex": hexOf(evalTerms(prior, val))},
						Replay: &ReplayReq{Steps: steps(val)[:upto], Judge: Judge{Kind: "same_as_step", Step: stepIdx, Step2: 2, ExpectHex: expect(val)}}}
				}
			}
			if !encOK(h, f2) {
				c.Prove(f2, "encode-into-history-succeeds", False, func(val func(*Term) uint64) *Violation {
					return &Violation{Detail: "Encode into a buffer with history returns an error", Replay: &ReplayReq{Steps: steps(val)[:6], Judge: Judge{Kind: "err_nonnil", Step: 5}}}
				})
				continue
			}
			all := unread(f2.heap[buf2])
			priorHex := func(val func(*Term) uint64) string { return hexOf(evalTerms(prior, val)) }
			var pcs []*Term
			for j := 0; j < H; j++ {
				pcs = append(pcs, Eq(all.At(CI(int64(j))), prior[j]))
			}
			c.Prove(f2, "prior-bytes-untouched", And(pcs...), mkNE("Encode altered bytes already in the buffer", 6, 5, priorHex))
			B2 := SliceBytes(all, CI(int64(H)), all.Len)
			if c.Prove(f2, "context-free:length", Eq(B2.Len, A.Len), mkNE("bytes appended to a buffer with history differ in length from the encoding into an empty buffer", 6, 5, priorHex)) {
				c.Prove(f2, "context-free:bytes", regionGoal(B2, A, CI(0), A.Len, 2048), mkNE("bytes appended to a buffer with history differ from the encoding into an empty buffer", 6, 5, priorHex))
			}
			// run 3: encode the object left by run 1 again
			e.pushCall(f2, h.enc, []Value{h.mPtr, &Ptr{Obj: buf3}}, nil)
			for _, f3 := range e.Run(f2) {
				if c.PathProblem(f3, "Encode#3", func(val func(*Term) uint64, msg string) *Violation {
					return &Violation{Obligation: "no-panic", Detail: "re-encoding panics: " + msg, Replay: &ReplayReq{Steps: steps(val), Judge: Judge{Kind: "panic"}}}
				}) {
					continue
				}
				none := func(val func(*Term) uint64) string { return "" }
				if !encOK(h, f3) {
					c.Prove(f3, "re-encode-succeeds", False, func(val func(*Term) uint64) *Violation {
						return &Violation{Detail: "re-encoding returns an error", Replay: &ReplayReq{Steps: steps(val), Judge: Judge{Kind: "err_nonnil", Step: 7}}}
					})
					continue
				}
				B3 := unread(f3.heap[buf3])
				if c.Prove(f3, "repeatable:length", Eq(B3.Len, A.Len), mkNE("encoding the same message object again yields a different length", 8, 7, none)) {
					c.Prove(f3, "repeatable:bytes", regionGoal(B3, A, CI(0), A.Len, 2048), mkNE("encoding the same message object again yields different bytes", 8, 7, none))
				}
				c.Witness(f3, "three encodes", func(val func(*Term) uint64) any {
					return map[string]any{"input": h.g.Concretize(h.m, val), "prior_hex": priorHex(val), "wire_hex": hexOf(evalBytes(A, val))}
				})
			}
		}
	}
}

func c07tail(c *Ctx, mc MsgCase, noReg bool) {
	h := c.newHarness(mc, "canon", 0)
	e := c.e()
	s := h.s
	maxTail := 4
	if c.thorough() {
		maxTail = 8
	}
	tail := h.g.symText(s, "tail", maxTail)
	steps := func(val func(*Term) uint64) []map[string]any {
		st := h.roundTripSteps(val)
		// append the tail between encode and decode
		out := append([]map[string]any{}, st[:3]...)
		out = append(out, step("op", "prim", "fn", "Padding", "args", []any{map[string]any{"buf": "b"}, "0", "0"})) // placeholder (no-op)
		return append(out, st[3:]...)
	}
	_ = steps
	bufPtr := &Ptr{Obj: h.bufID}
	e.pushCall(s, h.enc, []Value{h.mPtr, bufPtr}, nil)
	for _, fs := range e.Run(s) {
		if c.PathProblem(fs, "Encode", nil) || !encOK(h, fs) {
			continue // C01/C17 report encode problems
		}
		b := fs.heap[h.bufID]
		A := unread(b)
		b.B = Concat2(b.B, tail.S)
		replay := func(val func(*Term) uint64, j Judge) *ReplayReq {
			wire := hexOf(evalBytes(A, val)) + hexOf(evalBytes(tail.S, val))
			st := []map[string]any{
				step("op", "newbuf", "buf", "b", "hex", wire),
				step("op", "newmsg", "msg", "d", "module", mc.Mod, "type", mc.Typ),
				step("op", "decode", "msg", "d", "buf", "b"),
			}
			if noReg {
				st = append([]map[string]any{step("op", "registry", "ops", []map[string]any{step("op", "Clear")})}, st...)
				if j.Kind != "panic" {
					j.Step++
				}
			}
			return &ReplayReq{Steps: st, Judge: j}
		}
		if noReg {
			fn := c.w.fn("codec.Clear")
			if fn == nil {
				c.Inconclusive("codec.Clear not found")
				return
			}
			e.pushCall(fs, fn, nil, nil)
			fin := e.Run(fs)
			if len(fin) != 1 || fin[0].panicd != "" || fin[0].cut != "" {
				c.Inconclusive("codec.Clear did not run to a single result")
				return
			}
			fs = fin[0]
			fs.frames = nil
		}
		d := h.freshReceiver(fs)
		e.pushCall(fs, h.dec, []Value{d, bufPtr}, nil)
		for _, ds := range e.Run(fs) {
			if c.PathProblem(ds, "Decode", func(val func(*Term) uint64, msg string) *Violation {
				return &Violation{Obligation: "no-panic", Detail: "Decode of message+tail panics: " + msg, Replay: replay(val, Judge{Kind: "panic"})}
			}) {
				continue
			}
			if !isNilErr(ds.ret) {
				c.Prove(ds, "decode-succeeds", False, func(val func(*Term) uint64) *Violation {
					return &Violation{Detail: "Decode rejects a valid message followed by further bytes", Replay: replay(val, Judge{Kind: "err_nonnil", Step: 2})}
				})
				continue
			}
			rest := unread(ds.heap[h.bufID])
			tailHex := func(val func(*Term) uint64) string { return hexOf(evalBytes(tail.S, val)) }
			if c.Prove(ds, "tail-length", Eq(rest.Len, tail.S.Len), func(val func(*Term) uint64) *Violation {
				return &Violation{Detail: "Decode does not consume exactly the message's bytes", Replay: replay(val, Judge{Kind: "buf_ne", Step: 2, ExpectHex: tailHex(val)})}
			}) {
				c.Prove(ds, "tail-bytes", textEq(tail.S, rest, maxTail), func(val func(*Term) uint64) *Violation {
					return &Violation{Detail: "bytes after the message are not left untouched", Replay: replay(val, Judge{Kind: "buf_ne", Step: 2, ExpectHex: tailHex(val)})}
				})
			}
			expected := h.expectedFromWire(ds, A)
			got := h.g.Snapshot(ds, d, mc.Mod, mc.Typ)
			var goals []Goal
			h.g.EqualGoals(expected, got, "", &goals)
			for _, gl := range goals {
				gl := gl
				c.Prove(ds, "field"+gl.Name, gl.T, func(val func(*Term) uint64) *Violation {
					return &Violation{Detail: "with further bytes behind the message, decoded field " + gl.Name + " differs from the original",
						Replay: replay(val, Judge{Kind: "msg_ne", Step: 2, ExpectMsg: h.g.Concretize(expected, val), Ignore: h.computedNames()})}
				})
			}
			c.Witness(ds, "decode with tail", func(val func(*Term) uint64) any {
				return map[string]any{"wire_hex": hexOf(evalBytes(A, val)), "tail_hex": tailHex(val)}
			})
		}
	}
}

func c07pair(c *Ctx, mc MsgCase) {
	h := c.newHarness(mc, "canon", 0)
	e := c.e()
	s := h.s
	h.g.pfx = "second_"
	mB := h.g.Object(s, mc.Mod, mc.Typ, "")
	h.g.pfx = ""
	pB := h.g.MaterializePtr(s, mB)
	bufPtr := &Ptr{Obj: h.bufID}
	replay := func(val func(*Term) uint64, j Judge) *ReplayReq {
		return &ReplayReq{Steps: []map[string]any{
			step("op", "newbuf", "buf", "b", "hex", ""),
			step("op", "newmsg", "msg", "m1", "module", mc.Mod, "type", mc.Typ, "value", h.g.Concretize(h.m, val)),
			step("op", "newmsg", "msg", "m2", "module", mc.Mod, "type", mc.Typ, "value", h.g.Concretize(mB, val)),
			step("op", "encode", "msg", "m1", "buf", "b"),
			step("op", "encode", "msg", "m2", "buf", "b"),
			step("op", "newmsg", "msg", "d1", "module", mc.Mod, "type", mc.Typ),
			step("op", "decode", "msg", "d1", "buf", "b"),
			step("op", "newmsg", "msg", "d2", "module", mc.Mod, "type", mc.Typ),
			step("op", "decode", "msg", "d2", "buf", "b"),
		}, Judge: j}
	}
	e.pushCall(s, h.enc, []Value{h.mPtr, bufPtr}, nil)
	for _, f1 := range e.Run(s) {
		if c.PathProblem(f1, "Encode#1", nil) || !encOK(h, f1) {
			continue
		}
		A1 := unread(f1.heap[h.bufID])
		e.pushCall(f1, h.enc, []Value{pB, bufPtr}, nil)
		for _, f2 := range e.Run(f1) {
			if c.PathProblem(f2, "Encode#2", nil) || !encOK(h, f2) {
				continue
			}
			all := unread(f2.heap[h.bufID])
			A2 := SliceBytes(all, A1.Len, all.Len)
			d1 := h.freshReceiver(f2)
			e.pushCall(f2, h.dec, []Value{d1, bufPtr}, nil)
			for _, g1 := range e.Run(f2) {
				if c.PathProblem(g1, "Decode#1", func(val func(*Term) uint64, msg string) *Violation {
					return &Violation{Obligation: "no-panic", Detail: "first Decode of two back-to-back messages panics: " + msg, Replay: replay(val, Judge{Kind: "panic"})}
				}) {
					continue
				}
				if !isNilErr(g1.ret) {
					c.Prove(g1, "first-decode-succeeds", False, func(val func(*Term) uint64) *Violation {
						return &Violation{Detail: "first of two back-to-back messages is rejected", Replay: replay(val, Judge{Kind: "err_nonnil", Step: 6})}
					})
					continue
				}
				d2 := h.freshReceiver(g1)
				e.pushCall(g1, h.dec, []Value{d2, bufPtr}, nil)
				for _, g2 := range e.Run(g1) {
					if c.PathProblem(g2, "Decode#2", func(val func(*Term) uint64, msg string) *Violation {
						return &Violation{Obligation: "no-panic", Detail: "second Decode of two back-to-back messages panics: " + msg, Replay: replay(val, Judge{Kind: "panic"})}
					}) {
						continue
					}
					if !isNilErr(g2.ret) {
						c.Prove(g2, "second-decode-succeeds", False, func(val func(*Term) uint64) *Violation {
							return &Violation{Detail: "second of two back-to-back messages is rejected", Replay: replay(val, Judge{Kind: "err_nonnil", Step: 8})}
						})
						continue
					}
					var goals []Goal
					saveM := h.m
					h.g.EqualGoals(h.expectedFromWire(g2, A1), h.g.Snapshot(g2, d1, mc.Mod, mc.Typ), "#1", &goals)
					h.m = mB
					expB := h.expectedFromWire(g2, A2)
					h.m = saveM
					h.g.EqualGoals(expB, h.g.Snapshot(g2, d2, mc.Mod, mc.Typ), "#2", &goals)
					for _, gl := range goals {
						gl := gl
						c.Prove(g2, "field"+gl.Name, gl.T, func(val func(*Term) uint64) *Violation {
							st := 6
							exp := h.g.Concretize(h.m, val)
							if gl.Name[1] == '2' {
								st = 8
								exp = h.g.Concretize(mB, val)
							}
							return &Violation{Detail: "streamed message field " + gl.Name + " differs from the original",
								Replay: replay(val, Judge{Kind: "msg_ne", Step: st, ExpectMsg: exp, Ignore: h.computedNames()})}
						})
					}
					c.Prove(g2, "buffer-empty", Eq(unreadLen(g2.heap[h.bufID]), CI(0)), func(val func(*Term) uint64) *Violation {
						return &Violation{Detail: "bytes left after decoding two streamed messages", Replay: replay(val, Judge{Kind: "buf_ne", Step: 8, ExpectHex: ""})}
					})
					c.Witness(g2, "two messages streamed", nil)
				}
			}
		}
	}
}

func c11(c *Ctx, mc MsgCase) {
	h := c.newHarness(mc, "canon", 0)
	e := c.e()
	s := h.s
	bufPtr := &Ptr{Obj: h.bufID}
	e.pushCall(s, h.enc, []Value{h.mPtr, bufPtr}, nil)
	for _, fs := range e.Run(s) {
		if c.PathProblem(fs, "Encode", nil) || !encOK(h, fs) {
			continue
		}
		b := fs.heap[h.bufID]
		A := unread(b)
		_, hi, ok := boundsOf(A.Len)
		if !ok {
			c.Inconclusive("encoded length has no bound")
			continue
		}
		if hi == 0 {
			c.res.Vacuous = append(c.res.Vacuous, "empty encoding: no strict prefix exists")
			continue
		}
		k := e.boundedVar(fs, "cut", 0, hi-1)
		fs.pc = append(fs.pc, Lt(k, A.Len, true))
		b.B = SliceBytes(A, CI(0), k)
		b.R = CI(0)
		replay := func(val func(*Term) uint64, j Judge) *ReplayReq {
			full := evalBytes(A, val)
			cut := int(val(k))
			if cut > len(full) {
				cut = len(full)
			}
			return &ReplayReq{Steps: []map[string]any{
				step("op", "newbuf", "buf", "b", "hex", hexOf(full[:cut])),
				step("op", "newmsg", "msg", "d", "module", mc.Mod, "type", mc.Typ),
				step("op", "decode", "msg", "d", "buf", "b"),
			}, Judge: j,
				// the same prefix as a slice of a longer array (the rest of the message lies in the spare capacity,
				// as with w[:k] or a reused receive buffer)
				Alt: &ReplayReq{Steps: []map[string]any{
					step("op", "newbuf", "buf", "b", "hex", hexOf(full[:cut]), "tail", hexOf(full[cut:])+"abababababababab"),
					step("op", "newmsg", "msg", "d", "module", mc.Mod, "type", mc.Typ),
					step("op", "decode", "msg", "d", "buf", "b"),
				}, Judge: j}}
		}
		d := h.freshReceiver(fs)
		e.pushCall(fs, h.dec, []Value{d, bufPtr}, nil)
		nerr := 0
		for _, ds := range e.Run(fs) {
			if c.PathProblem(ds, "Decode(truncated)", func(val func(*Term) uint64, msg string) *Violation {
				return &Violation{Obligation: "no-panic", Detail: "Decode of a truncated message panics: " + msg, Replay: replay(val, Judge{Kind: "panic"})}
			}) {
				continue
			}
			if isNilErr(ds.ret) {
				c.Prove(ds, "truncation-rejected", False, func(val func(*Term) uint64) *Violation {
					return &Violation{Detail: fmt.Sprintf("Decode reports success on a strict prefix (cut at %d of %d bytes)", val(k), val(A.Len)), Replay: replay(val, Judge{Kind: "err_nil", Step: 2})}
				})
				continue
			}
			// an error path: counts as a discharged obligation
			c.res.Obl++
			c.res.Dis++
			nerr++
			if nerr == 1 {
				c.Witness(ds, "error path", func(val func(*Term) uint64) any {
					return map[string]any{"cut": val(k), "length": val(A.Len)}
				})
			}
		}
	}
}

// c07primList: n elements written by a list writer, two arbitrary bytes appended, read back by the twin reader:
// n elements equal to the ones written, exactly the two tail bytes left.
func c07primList(c *Ctx, p primInst, n int) {
	e := c.e()
	h := c.buildWriterShared(p, n)
	if h == nil {
		return
	}
	rname := "Read" + strings.TrimPrefix(p.Base, "Write")
	var rp *primInst
	for _, q := range c.primInstances() {
		q := q
		if q.Base == rname && strings.Join(q.TArgs, ",") == strings.Join(p.TArgs, ",") {
			rp = &q
		}
	}
	if rp == nil {
		c.Inconclusive("no reader twin " + rname)
		return
	}
	t0, t1 := e.freshVar("tail", 8), e.freshVar("tail", 8)
	oldU := e.unroll
	e.unroll = n + 8
	defer func() { e.unroll = oldU }()
	rargs := []Value{&Ptr{Obj: h.bufID}}
	rj := []any{map[string]any{"buf": "b"}}
	switch rp.Family {
	case "ReadFixedStringList":
		rargs = append(rargs, CI(2))
		rj = append(rj, "2")
	case "ReadObjectList":
		rargs = append(rargs, &FuncV{Fn: c.w.fn("codec.NewZzObj")})
		rj = append(rj, nil)
	}
	if rp.Fn.Signature.Params().Len() != len(rargs) {
		panic(bindErr("reader signature of " + rp.Name))
	}
	steps := func(val func(*Term) uint64) []map[string]any {
		return []map[string]any{
			step("op", "newbuf", "buf", "b", "hex", ""),
			step("op", "prim", "fn", p.Name, "args", h.jargs(val)),
			step("op", "fillbuf", "buf", "b", "n", 1, "fill", int(val(t0))),
			step("op", "fillbuf", "buf", "b", "n", 1, "fill", int(val(t1))),
			step("op", "prim", "fn", rp.Name, "args", rj),
		}
	}
	e.pushCall(h.s, p.Fn, h.args, nil)
	for _, ws := range e.Run(h.s) {
		if c.PathProblem(ws, p.Name, nil) || !isNilErr(ws.ret) {
			continue
		}
		b := ws.heap[h.bufID]
		b.B = Concat2(b.B, VecBytes([]*Term{t0, t1}))
		e.pushCall(ws, rp.Fn, rargs, nil)
		for _, rs := range e.Run(ws) {
			if c.PathProblem(rs, rp.Name, func(val func(*Term) uint64, msg string) *Violation {
				return &Violation{Obligation: "no-panic", Detail: rp.Name + " panics on its writer's output: " + msg, Replay: &ReplayReq{Steps: steps(val), Judge: Judge{Kind: "panic"}}}
			}) {
				continue
			}
			rv := rs.ret.(TupleV)
			mk := func(what string) func(val func(*Term) uint64) *Violation {
				return func(val func(*Term) uint64) *Violation {
					return &Violation{Detail: fmt.Sprintf("%s with %d elements: %s", rp.Name, n, what),
						Replay: &ReplayReq{Steps: steps(val), Judge: Judge{Kind: "buf_ne", Step: 4, ExpectHex: hexOf([]byte{byte(val(t0)), byte(val(t1))})}}}
				}
			}
			if !isNilErr(rv[1]) {
				c.Prove(rs, "reads-back", False, mk("the reader rejects its writer's output"))
				continue
			}
			res := rv[0].(*SliceV)
			c.Prove(rs, "element-count", Eq(res.Len, CI(int64(n))), mk(fmt.Sprintf("%v elements come back", res.Len.Val)))
			rest := unread(rs.heap[h.bufID])
			c.Prove(rs, "exact-consumption", And(Eq(rest.Len, CI(2)), Eq(rest.At(CI(0)), t0), Eq(rest.At(CI(1)), t1)), mk("the bytes after the list are not left exactly as they were"))
			c.Witness(rs, "list round trip", func(val func(*Term) uint64) any { return map[string]any{"fn": p.Name, "n": n} })
		}
	}
}

// c06afterFail: Encode(M2) -> A; Encode(M1) fails (a body text too long for its prefix, after earlier body fields
// were written); Encode(M2 again, another object with the same content) into an empty buffer must give A.
func c06afterFail(c *Ctx, mod, tn string, key, fi int) {
	mc := MsgCase{Mod: mod, Typ: tn, Key: key}
	h := c.newHarness(mc, "canon", 0)
	e := c.e()
	s := h.s
	ts := c.sc.Mods[mod].Types[tn]
	bf := ts.BodyField()
	bi := -1
	for i := range ts.Fields {
		if ts.Fields[i].Go == bf.Go {
			bi = i
		}
	}
	if bi < 0 || h.m.F[bi] == nil || h.m.F[bi].K != 'o' {
		c.Inconclusive("body value not found")
		return
	}
	bts := c.sc.Mods[mod].Types[h.m.F[bi].Typ]
	f := bts.Fields[fi]
	// M2 twice (same content, two objects), before anything runs
	m2 := h.g.Object(s, mod, tn, ".second")
	pA, pB := h.g.MaterializePtr(s, m2), h.g.MaterializePtr(s, m2)
	// M1: the harness value with the over-long text
	n := int(prefixMax(f.Prefix)) + 1
	h.m.F[bi].F[fi] = &SVal{K: 's', S: RepeatByte(C(8, 'x'), CI(int64(n))), SMax: n}
	p1 := h.g.MaterializePtr(s, h.m)
	bufA := s.newObj(&Obj{Kind: kBuffer, B: EmptyBytes(), R: CI(0)})
	buf1 := s.newObj(&Obj{Kind: kBuffer, B: EmptyBytes(), R: CI(0)})
	bufB := s.newObj(&Obj{Kind: kBuffer, B: EmptyBytes(), R: CI(0)})
	steps := func(val func(*Term) uint64) []map[string]any {
		v2 := h.g.Concretize(m2, val)
		v1 := h.g.Concretize(h.m, val).(map[string]any)
		if b, ok := v1[bf.Go].(map[string]any); ok {
			b[f.Go] = map[string]any{"$hex": strings.Repeat("78", n)}
		}
		return []map[string]any{
			step("op", "newbuf", "buf", "a", "hex", ""), step("op", "newmsg", "msg", "ma", "module", mod, "type", tn, "value", v2), step("op", "encode", "msg", "ma", "buf", "a"),
			step("op", "newbuf", "buf", "f", "hex", ""), step("op", "newmsg", "msg", "m1", "module", mod, "type", tn, "value", v1), step("op", "encode", "msg", "m1", "buf", "f"),
			step("op", "newbuf", "buf", "b", "hex", ""), step("op", "newmsg", "msg", "mb", "module", mod, "type", tn, "value", v2), step("op", "encode", "msg", "mb", "buf", "b"),
		}
	}
	judge := Judge{Kind: "same_as_step", Step: 8, Step2: 2}
	e.pushCall(s, h.enc, []Value{pA, &Ptr{Obj: bufA}}, nil)
	for _, f1 := range e.Run(s) {
		if c.PathProblem(f1, "Encode", nil) || !encOK(h, f1) {
			continue
		}
		A := unread(f1.heap[bufA])
		f1.frames = nil
		e.pushCall(f1, h.enc, []Value{p1, &Ptr{Obj: buf1}}, nil)
		failed := 0
		for _, f2 := range e.Run(f1) {
			if c.PathProblem(f2, "Encode(too long)", nil) || encOK(h, f2) {
				continue // (C17 / C18 report panics and accepted over-long values)
			}
			failed++
			f2.frames = nil
			e.pushCall(f2, h.enc, []Value{pB, &Ptr{Obj: bufB}}, nil)
			for _, f3 := range e.Run(f2) {
				if c.PathProblem(f3, "Encode after a failed Encode", func(val func(*Term) uint64, msg string) *Violation {
					return &Violation{Obligation: "after-failure:no-panic", Detail: "Encode panics after an earlier Encode failed: " + msg, Replay: &ReplayReq{Steps: steps(val), Judge: Judge{Kind: "panic"}}}
				}) {
					continue
				}
				mk := func(what string) func(val func(*Term) uint64) *Violation {
					return func(val func(*Term) uint64) *Violation {
						return &Violation{Detail: what, Replay: &ReplayReq{Steps: steps(val), Judge: judge}}
					}
				}
				if !encOK(h, f3) {
					c.Prove(f3, "after-failure:succeeds", False, mk("Encode of a valid message fails after an earlier Encode of another message failed"))
					continue
				}
				Bb := unread(f3.heap[bufB])
				if c.Prove(f3, "after-failure:length", Eq(Bb.Len, A.Len), mk("after a failed Encode of another message, Encode emits a different number of bytes")) {
					c.Prove(f3, "after-failure:bytes", regionGoal(Bb, A, CI(0), A.Len, 600), mk("after a failed Encode of another message, Encode emits different bytes"))
				}
				c.Witness(f3, "encode, failed encode, encode", nil)
			}
		}
		if failed == 0 {
			c.res.Vacuous = append(c.res.Vacuous, "the over-long body is not refused on any path (C18's subject): nothing to check after a failure")
		}
	}
}

// c06bigHistory: Encode into an empty buffer -> A; Encode of the same value into a buffer that already holds L unread
// bytes (L symbolic, 0..2^20): same outcome, and the bytes appended behind them equal A.
func c06bigHistory(c *Ctx, mc MsgCase) {
	h := c.newHarness(mc, "wide", 0)
	e := c.e()
	s := h.s
	m2 := h.g.MaterializePtr(s, h.m)
	hist := (&Gen{w: c.w, sc: c.sc}).symText(s, "hist", 1<<20)
	L := hist.S.Len
	buf2 := s.newObj(&Obj{Kind: kBuffer, B: hist.S, R: CI(0)})
	steps := func(val func(*Term) uint64) []map[string]any {
		v := h.g.Concretize(h.m, val)
		return []map[string]any{
			step("op", "newbuf", "buf", "b1", "hex", ""),
			step("op", "newmsg", "msg", "m", "module", mc.Mod, "type", mc.Typ, "value", v),
			step("op", "encode", "msg", "m", "buf", "b1"),
			step("op", "fillbuf", "buf", "b2", "n", int(val(L)), "fill", 0),
			step("op", "newmsg", "msg", "m2", "module", mc.Mod, "type", mc.Typ, "value", v),
			step("op", "encode", "msg", "m2", "buf", "b2"),
		}
	}
	mk := func(what string) func(val func(*Term) uint64) *Violation {
		return func(val func(*Term) uint64) *Violation {
			return &Violation{Detail: what, Model: map[string]any{"bytes_already_in_the_buffer": val(L)},
				Replay: &ReplayReq{Steps: steps(val), Judge: Judge{Kind: "same_as_step", Step: 5, Step2: 2, ExpectHex: strings.Repeat("00", int(val(L)))}}}
		}
	}
	e.pushCall(s, h.enc, []Value{h.mPtr, &Ptr{Obj: h.bufID}}, nil)
	for _, f1 := range e.Run(s) {
		if c.PathProblem(f1, "Encode#1", nil) || !encOK(h, f1) {
			continue
		}
		A := unread(f1.heap[h.bufID])
		f1.frames = nil
		e.pushCall(f1, h.enc, []Value{m2, &Ptr{Obj: buf2}}, nil)
		for _, f2 := range e.Run(f1) {
			if c.PathProblem(f2, "Encode into a buffer holding earlier bytes", func(val func(*Term) uint64, msg string) *Violation {
				return &Violation{Obligation: "bighistory:no-panic", Detail: "Encode panics when the buffer already holds bytes: " + msg, Model: map[string]any{"bytes_already_in_the_buffer": val(L)},
					Replay: &ReplayReq{Steps: steps(val), Judge: Judge{Kind: "panic"}}}
			}) {
				continue
			}
			if !encOK(h, f2) {
				c.Prove(f2, "bighistory:same-outcome", False, mk("Encode succeeds into an empty buffer and fails into one that already holds bytes"))
				continue
			}
			all := unread(f2.heap[buf2])
			app := SliceBytes(all, L, all.Len)
			if c.Prove(f2, "bighistory:length", Eq(app.Len, A.Len), mk("the number of bytes appended depends on what the buffer already holds")) {
				end := A.Len
				if fi := c.frameInfo(mc.Mod, mc.Typ); fi != nil && fi.Alg == "CRC32" {
					// (the CRC-32 trailer is an uninterpreted value per rendering: C05 establishes what it covers)
					end = Sub(A.Len, CI(int64(fi.SumSize)))
				}
				c.Prove(f2, "bighistory:bytes", regionGoal(app, A, CI(0), end, 300), mk("the bytes appended depend on what the buffer already holds"))
			}
			c.Witness(f2, "big history", func(val func(*Term) uint64) any { return map[string]any{"bytes_already_in_the_buffer": val(L)} })
		}
	}
}
