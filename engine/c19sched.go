package main

// C19 layer 3: bounded interleavings with the schedule as solver variables.
//
// Each operation is executed symbolically on the real SSA with the registry map answering lookups
// nondeterministically (other goroutines may have changed it), which yields every control-flow path of the
// operation together with its ordered trace of visible events (mutex operations, lookups with the answer
// the path assumed, updates, deletes, map replacement). For a tuple of operations (one per thread) and a
// choice of one path per thread, an SMT query asks for timestamps of all events such that
//   - program order holds, timestamps are distinct,
//   - critical sections of the same mutex exclude each other unless both are read-mode,
//   - every lookup sees the value of the latest earlier write to its key (or the initial content) and that
//     value agrees with the answer the path assumed,
//   - and NO permutation of the operations that respects real-time order explains the observed results and
//     the final content under the atomic-map specification.
// sat = a non-linearizable schedule (printed as the counterexample); unsat for every path combination =
// all interleavings of that tuple are linearizable.

import (
	"fmt"
	"sort"
	"strings"
)

type opPath struct {
	trace []TraceEv
	ret   string // "true", "false", "found", "absent", ""
}

const c19Name = "CRC16"
const c19Name2 = "CRC32" // second key of the two-key tuples

func (c *Ctx) opPaths(op regOp) []opPath {
	e := c.e()
	s := c.regPrepare("init")
	_, _, mapObj, ok := c.regState(s)
	if !ok {
		panic(bindErr("registry object not recognised"))
	}
	args, _, _ := c.regArgs(s, op)
	fn := c.w.fn("codec." + op.Op)
	if fn == nil {
		panic(bindErr("codec." + op.Op + " not found"))
	}
	e.havocLookup = map[int]bool{mapObj: true}
	// lock-free cells (atomic.Pointer memos) of the registry answer nondeterministically too: nil, or an entry
	// carrying one of the tracked names
	e.havocAtomic = []string{c19Name, c19Name2}
	oldMerge := e.merge
	e.merge = false // every control-flow path keeps its own event trace
	defer func() { e.havocLookup = nil; e.havocAtomic = nil; e.merge = oldMerge }()
	s.trace = nil
	e.pushCall(s, fn, args, nil)
	var out []opPath
	for _, fs := range e.Run(s) {
		if fs.panicd != "" || fs.cut != "" {
			panic(bindErr("path of " + op.Op + " ended abnormally: " + fs.panicd + fs.cut))
		}
		p := opPath{trace: fs.trace}
		switch op.Op {
		case "Registry":
			if t, ok := fs.ret.(*Term); ok {
				p.ret = map[*Term]string{True: "true", False: "false"}[t]
			}
		case "Get":
			if tv, ok := fs.ret.(TupleV); ok && len(tv) == 2 {
				if tv[1] == True {
					p.ret = "found"
				} else {
					p.ret = "absent"
				}
			}
		}
		out = append(out, p)
	}
	return out
}

func c19schedItems(c *Ctx) []Item {
	reg := regOp{"Registry", c19Name, "service"}
	get := regOp{"Get", c19Name, ""}
	rem := regOp{"Remove", c19Name, ""}
	clr := regOp{"Clear", "", ""}
	tuples := [][]regOp{
		{reg, reg}, {reg, get}, {reg, rem}, {reg, clr}, {get, rem}, {get, clr}, {rem, rem}, {rem, clr}, {get, get}, {clr, clr},
		{reg, reg, get}, {reg, reg, rem}, {reg, rem, get}, {reg, clr, get},
		// a look-up that overlaps a removal, and a look-up after both (a memo published late is served here)
		{get, rem, get}, {get, clr, get},
	}
	if c.thorough() {
		// four operations on one name (24 sequential orders per path combination)
		tuples = append(tuples, []regOp{reg, reg, rem, get}, []regOp{reg, rem, get, get}, []regOp{reg, clr, reg, get}, []regOp{get, rem, reg, get})
	}
	// operations on two different names: one operation must not disturb the other's key
	reg2 := regOp{"Registry", c19Name2, "service"}
	get2 := regOp{"Get", c19Name2, ""}
	rem2 := regOp{"Remove", c19Name2, ""}
	tuples2 := [][]regOp{{rem, reg2}, {reg, reg2}, {rem, get2}, {reg, rem2}, {rem, reg2, get2}, {reg, rem, reg2},
		// Clear must empty the registry in one step: a look-up that misses one name and a later look-up that still
		// finds another cannot both be explained
		{clr, get, get2}}
	var items []Item
	for _, tp := range tuples {
		tp := tp
		var names []string
		for _, o := range tp {
			names = append(names, o.Op)
		}
		items = append(items, Item{ID: "sched:" + strings.Join(names, "||"), Run: func(c *Ctx) { c19sched(c, tp) }})
	}
	for _, tp := range tuples2 {
		tp := tp
		var names []string
		for _, o := range tp {
			nm := o.Op
			if o.Name == c19Name2 {
				nm += "'"
			}
			names = append(names, nm)
		}
		items = append(items, Item{ID: "sched2:" + strings.Join(names, "||"), Run: func(c *Ctx) { c19sched(c, tp) }})
	}
	return items
}

func c19Layer3Covers(op string) bool { return true }

type schedEv struct {
	thread int
	ev     TraceEv
	ts     *Term
}

func c19sched(c *Ctx, ops []regOp) {
	e := c.e()
	paths := make([][]opPath, len(ops))
	for i, o := range ops {
		paths[i] = c.opPaths(o)
		if len(paths[i]) == 0 {
			c.Inconclusive("no path for " + o.Op)
			return
		}
	}
	// enumerate path combinations
	idx := make([]int, len(ops))
	for {
		c19combo(c, e, ops, paths, idx)
		k := len(idx) - 1
		for k >= 0 {
			idx[k]++
			if idx[k] < len(paths[k]) {
				break
			}
			idx[k] = 0
			k--
		}
		if k < 0 {
			break
		}
	}
}

func permutations(n int) [][]int {
	var out [][]int
	var rec func(cur []int, used []bool)
	rec = func(cur []int, used []bool) {
		if len(cur) == n {
			out = append(out, append([]int{}, cur...))
			return
		}
		for i := 0; i < n; i++ {
			if !used[i] {
				used[i] = true
				rec(append(cur, i), used)
				used[i] = false
			}
		}
	}
	rec(nil, make([]bool, n))
	return out
}

func c19combo(c *Ctx, e *Engine, ops []regOp, paths [][]opPath, idx []int) {
	const W = 8
	n := len(ops)
	var evs []*schedEv
	first := make([]*Term, n)
	last := make([]*Term, n)
	var cons []*Term
	for t := 0; t < n; t++ {
		var prev *Term
		for _, ev := range paths[t][idx[t]].trace {
			se := &schedEv{thread: t, ev: ev, ts: e.freshVar(fmt.Sprintf("ts_t%d", t), W)}
			evs = append(evs, se)
			if prev != nil {
				cons = append(cons, Lt(prev, se.ts, false))
			} else {
				first[t] = se.ts
			}
			prev = se.ts
			last[t] = se.ts
		}
		if first[t] == nil {
			// an operation without visible events (e.g. Registry of a non-service): give it one point in time
			ts := e.freshVar(fmt.Sprintf("ts_t%d", t), W)
			first[t], last[t] = ts, ts
			evs = append(evs, &schedEv{thread: t, ev: TraceEv{Kind: "nop"}, ts: ts})
		}
	}
	total := len(evs)
	for i := range evs {
		cons = append(cons, Lt(evs[i].ts, C(W, uint64(total)), false))
		for j := i + 1; j < len(evs); j++ {
			cons = append(cons, Not(Eq(evs[i].ts, evs[j].ts)))
		}
	}
	// critical sections per thread and mutex
	type section struct {
		thread   int
		key      string
		write    bool
		acq, rel *Term
	}
	var secs []section
	for t := 0; t < n; t++ {
		open := map[string]*section{}
		for _, se := range evs {
			if se.thread != t {
				continue
			}
			switch se.ev.Kind {
			case "Lock", "RLock":
				open[se.ev.Key] = &section{thread: t, key: se.ev.Key, write: se.ev.Kind == "Lock", acq: se.ts}
			case "Unlock", "RUnlock":
				if sc := open[se.ev.Key]; sc != nil {
					sc.rel = se.ts
					secs = append(secs, *sc)
					delete(open, se.ev.Key)
				}
			}
		}
	}
	for i := range secs {
		for j := i + 1; j < len(secs); j++ {
			a, b := secs[i], secs[j]
			if a.thread == b.thread || a.key != b.key || (!a.write && !b.write) {
				continue
			}
			cons = append(cons, Or(Lt(a.rel, b.acq, false), Lt(b.rel, a.acq, false)))
		}
	}
	// a failed try-lock needs a conflicting critical section of another thread around it (a pending writer also
	// makes TryRLock fail, which the sections over-approximate from below: only holders are considered)
	for _, se := range evs {
		if se.ev.Kind != "tryfail" {
			continue
		}
		var why []*Term
		for _, sc := range secs {
			if sc.thread == se.thread || sc.key != se.ev.Key || (!sc.write && !se.ev.Res) {
				continue
			}
			why = append(why, And(Lt(sc.acq, se.ts, false), Lt(se.ts, sc.rel, false)))
		}
		cons = append(cons, Or(why...))
	}
	// content per tracked key: 0 absent, 1 initial service, 2+t the service registered by thread t
	const CW = 4
	var keys []string
	for _, o := range ops {
		if o.Name != "" && o.Name != "?" {
			dup := false
			for _, k := range keys {
				dup = dup || k == o.Name
			}
			if !dup {
				keys = append(keys, o.Name)
			}
		}
	}
	if len(keys) == 0 {
		keys = []string{c19Name}
	}
	keyIdx := func(k string) int {
		for i, x := range keys {
			if x == k {
				return i
			}
		}
		return -1
	}
	inits := make([]*Term, len(keys))
	initC := make([]*Term, len(keys))
	for i, k := range keys {
		inits[i] = e.freshVar("init_present_"+k, 0)
		initC[i] = Ite(inits[i], C(CW, 1), C(CW, 0))
	}
	type write struct {
		ts  *Term
		val *Term
		key int // -1: every key (map replaced)
	}
	var writes []write
	for _, se := range evs {
		switch se.ev.Kind {
		case "update":
			if ki := keyIdx(se.ev.Key); ki >= 0 {
				writes = append(writes, write{se.ts, C(CW, uint64(2+se.thread)), ki})
			}
		case "delete":
			if ki := keyIdx(se.ev.Key); ki >= 0 {
				writes = append(writes, write{se.ts, C(CW, 0), ki})
			}
		case "replace":
			writes = append(writes, write{se.ts, C(CW, 0), -1})
		}
	}
	seenAt := func(ts *Term, ki int) *Term {
		v := initC[ki]
		for i, w := range writes {
			if w.key != -1 && w.key != ki {
				continue
			}
			latest := Lt(w.ts, ts, false)
			for j, w2 := range writes {
				if i != j && (w2.key == -1 || w2.key == ki) {
					latest = And(latest, Not(And(Lt(w.ts, w2.ts, false), Lt(w2.ts, ts, false))))
				}
			}
			v = Ite(latest, w.val, v)
		}
		return v
	}
	getSeen := make([]*Term, n)
	for _, se := range evs {
		switch se.ev.Kind {
		case "lookup":
			ki := keyIdx(se.ev.Key)
			if ki < 0 {
				continue
			}
			sv := seenAt(se.ts, ki)
			if se.ev.Res {
				cons = append(cons, Not(Eq(sv, C(CW, 0))))
			} else {
				cons = append(cons, Eq(sv, C(CW, 0)))
			}
			if ops[se.thread].Op == "Get" {
				getSeen[se.thread] = sv
			}
		case "lenzero":
			// "the map is empty" is only possible when every tracked key is absent (untracked keys are the
			// environment: their absence is assumed possible); "not empty" is always possible
			if se.ev.Res {
				for ki := range keys {
					cons = append(cons, Eq(seenAt(se.ts, ki), C(CW, 0)))
				}
			}
		}
	}
	// lock-free cells: every atomic load sees the latest earlier atomic store to its cell (initially nil); the
	// value an entry stands for is what its thread's latest map look-up saw
	type astore struct {
		ts     *Term
		nonNil bool
		name   string
		val    *Term
		cell   string
	}
	var astores []astore
	lastSeen := make([]*Term, n)
	hasLookup := make([]bool, n)
	for _, se := range evs {
		switch se.ev.Kind {
		case "lookup":
			if ki := keyIdx(se.ev.Key); ki >= 0 {
				lastSeen[se.thread] = seenAt(se.ts, ki)
				hasLookup[se.thread] = true
			}
		case "astore":
			v := lastSeen[se.thread]
			if v == nil {
				v = e.freshVar("memo_val", CW)
			}
			astores = append(astores, astore{se.ts, se.ev.Res, se.ev.Name, v, se.ev.Key})
		}
	}
	for _, se := range evs {
		if se.ev.Kind != "aload" {
			continue
		}
		latest := func(i int) *Term {
			l := Lt(astores[i].ts, se.ts, false)
			for j := range astores {
				if i != j && astores[j].cell == astores[i].cell {
					l = And(l, Not(And(Lt(astores[i].ts, astores[j].ts, false), Lt(astores[j].ts, se.ts, false))))
				}
			}
			return l
		}
		if !se.ev.Res {
			for i, a := range astores {
				if a.cell == se.ev.Key && a.nonNil {
					cons = append(cons, Not(latest(i)))
				}
			}
			continue
		}
		var some []*Term
		memo := C(CW, 0)
		for i, a := range astores {
			if a.cell != se.ev.Key || !a.nonNil || (a.name != se.ev.Name && a.name != "?") {
				continue
			}
			some = append(some, latest(i))
			memo = Ite(latest(i), a.val, memo)
		}
		cons = append(cons, Or(some...)) // (no matching store: this path combination is infeasible)
		if ops[se.thread].Op == "Get" && !hasLookup[se.thread] {
			getSeen[se.thread] = memo
		}
	}
	final := make([]*Term, len(keys))
	for ki := range keys {
		final[ki] = seenAt(C(W, uint64(total)), ki)
	}
	// no permutation explains the outcome
	var unexplained []*Term
	for _, perm := range permutations(n) {
		valid := True
		for a := 0; a < n; a++ {
			for b := a + 1; b < n; b++ {
				i, j := perm[a], perm[b] // i before j in the linearization
				valid = And(valid, Not(Lt(last[j], first[i], false)))
			}
		}
		cur := append([]*Term{}, initC...)
		match := True
		for _, t := range perm {
			p := paths[t][idx[t]]
			ki := keyIdx(ops[t].Name)
			switch ops[t].Op {
			case "Registry":
				if ops[t].Kind == "nonservice" {
					match = And(match, B(p.ret == "false"))
					break
				}
				absent := Eq(cur[ki], C(CW, 0))
				match = And(match, Eq(absent, B(p.ret == "true")))
				cur[ki] = Ite(absent, C(CW, uint64(2+t)), cur[ki])
			case "Get":
				found := Not(Eq(cur[ki], C(CW, 0)))
				match = And(match, Eq(found, B(p.ret == "found")))
				if p.ret == "found" && getSeen[t] != nil {
					match = And(match, Eq(getSeen[t], cur[ki]))
				}
			case "Remove":
				cur[ki] = C(CW, 0)
			case "Clear":
				for q := range cur {
					cur[q] = C(CW, 0)
				}
			}
		}
		for ki := range keys {
			match = And(match, Eq(final[ki], cur[ki]))
		}
		unexplained = append(unexplained, Not(And(valid, match)))
	}
	st := c.w.newState()
	st.pc = cons
	var names []string
	for t := range ops {
		names = append(names, fmt.Sprintf("%s#%d", ops[t].Op, idx[t]))
	}
	label := strings.Join(names, "||")
	// feasibility of this path combination at all (otherwise the combination is vacuous, which is fine)
	initDesc := func(val func(*Term) uint64) string {
		var ps []string
		for i, k := range keys {
			ps = append(ps, fmt.Sprintf("%s:%v", k, val(inits[i]) == 1))
		}
		return strings.Join(ps, ",")
	}
	c.Prove(st, "linearizable:"+label, Not(And(unexplained...)), func(val func(*Term) uint64) *Violation {
		// print the schedule
		type row struct {
			ts uint64
			s  string
		}
		var rows []row
		for _, se := range evs {
			d := se.ev.Kind
			if se.ev.Kind == "lookup" {
				d += fmt.Sprintf("(%s)=%v", se.ev.Key, se.ev.Res)
			} else if se.ev.Kind == "update" || se.ev.Kind == "delete" {
				d += "(" + se.ev.Key + ")"
			} else if se.ev.Kind == "aload" || se.ev.Kind == "astore" {
				d = fmt.Sprintf("atomic %s entry=%q", map[string]string{"aload": "load", "astore": "store"}[se.ev.Kind], se.ev.Name)
			} else if se.ev.Kind == "tryfail" {
				d = "try-lock fails"
			} else if se.ev.Kind == "lenzero" {
				d = fmt.Sprintf("len(map)==0 is %v", se.ev.Res)
			}
			rows = append(rows, row{val(se.ts), fmt.Sprintf("T%d:%s %s", se.thread+1, ops[se.thread].Op, d)})
		}
		sort.Slice(rows, func(i, j int) bool { return rows[i].ts < rows[j].ts })
		var sched []string
		for _, r := range rows {
			sched = append(sched, r.s)
		}
		var rets []string
		for t := range ops {
			rets = append(rets, fmt.Sprintf("T%d:%s -> %s", t+1, ops[t].Op, paths[t][idx[t]].ret))
		}
		return &Violation{Detail: fmt.Sprintf("a schedule of %s is not explained by any sequential order: %s; results %s; initially present=%v", label, strings.Join(sched, " ; "), strings.Join(rets, ", "), initDesc(val)),
			Model:  map[string]any{"schedule": sched, "results": rets, "initially_present": initDesc(val)},
			Replay: &ReplayReq{Steps: []map[string]any{step("op", "registry", "threads", 8, "n", 20000)}, Judge: Judge{Kind: "anomaly", Step: 0, Note: "race"}}}
	})
	if c.res.Sample == nil {
		c.res.Sample = map[string]any{"tuple": label, "events": total, "permutations": len(permutations(n))}
	}
	c.res.Witness++
}
