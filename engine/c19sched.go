package main

// C19 layer 3: bounded interleavings with the schedule as solver variables (see DESIGN.md §6 C19).

func c19schedItems(c *Ctx) []Item { return nil }

func c19Layer3Covers(op string) bool { return false }
