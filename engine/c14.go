package main

// C14 - each named checksum algorithm computes its published definition on every input.

import (
	"fmt"
	"go/types"

	"golang.org/x/tools/go/ssa"
)

type svcSpec struct {
	Name  string // Go type name
	Alg   string
	Kind  string // "crc16", "crc32", "sum"
	Check uint64 // result on "123456789"
}

var checksumSvcs = []svcSpec{
	{"Crc16ChecksumService", "CRC16", "crc16", 0x4B37},
	{"Crc32ChecksumService", "CRC32", "crc32", 0xCBF43926},
	{"SseBinChecksumService", "SSE_BIN", "sum", 0xDD},
	{"SzseBinChecksumService", "SZSE_BIN", "sum", 0xDD},
}

func init() {
	drivers["C14"] = &Driver{Prop: "C14", Level: "model_checking",
		Explain: "per service: (1) the real Calc is entered at its loop header with the accumulator, index, buffer content and length symbolic (cut-point mode): init, step and exit lemmas against the catalogue formulation (CRC-16/MODBUS as Rocksoft model poly 0x8005 refin/refout init 0xFFFF; byte sum with a ghost true sum) give the claim for every length up to 2^26 by induction; (2) the whole Calc on n symbolic bytes equals the independent formulation; (3) purity: buffer length, offset and bytes unchanged, two calls give the same result; (4) catalogue check value on '123456789'. CRC-32 is one call to hash/crc32: the obligation is that the argument is exactly the unread bytes; the bit-serial model used for it is compared with the Rocksoft formulation and validated natively against hash/crc32",
		Assume:  []string{"standard-library contracts listed under trusted_base", "induction over the loop (init+step+exit) is a meta-argument; ghost length bound 2^26 bytes (64 MiB)", "hash/crc32.ChecksumIEEE is trusted to implement CRC-32/IEEE (validated natively on vectors)"},
		Bounds: func(tier string) map[string]any {
			if tier == "thorough" {
				return map[string]any{"stream_lengths": "0..8 (CRC-32 bit-serial model vs Rocksoft model: 0..2)", "lemma_length_bound": "n <= 2^26", "services": 4}
			}
			return map[string]any{"stream_lengths": "0..3 (CRC-32 bit-serial model vs Rocksoft model: 0..1)", "lemma_length_bound": "n <= 2^26", "services": 4}
		},
		Items: func(c *Ctx) []Item {
			var items []Item
			for _, sv := range checksumSvcs {
				sv := sv
				maxN := 3
				if c.thorough() {
					maxN = 8
				}
				if sv.Kind == "crc32" {
					maxN = 1
					if c.thorough() {
						maxN = 2
					}
				}
				for n := 0; n <= maxN; n++ {
					n := n
					items = append(items, Item{ID: fmt.Sprintf("stream:%s/n=%d", sv.Alg, n), Run: func(c *Ctx) { c14stream(c, sv, n) }})
				}
				items = append(items, Item{ID: "lemmas:" + sv.Alg, Run: func(c *Ctx) { c14lemmas(c, sv) }})
				if sv.Kind == "sum" {
					// long inputs made of a repeated 4-byte symbolic pattern: accumulator width, lane and carry effects
					for _, n := range []int{300, 700, 5000} {
						n := n
						items = append(items, Item{ID: fmt.Sprintf("pattern:%s/n=%d", sv.Alg, n), Run: func(c *Ctx) { c14pattern(c, sv, n) }})
					}
				}
				items = append(items, Item{ID: "checkvalue:" + sv.Alg, Run: func(c *Ctx) { c14checkValue(c, sv) }})
				// the service everybody gets from the registry is shared: Calc may not keep state in it
				items = append(items, Item{ID: "shared:" + sv.Alg, Run: func(c *Ctx) { c14shared(c, sv) }})
				// history: the result must depend on the bytes given now, not on what the same service saw before
				for _, n := range []int{1, 2} {
					n := n
					items = append(items, Item{ID: fmt.Sprintf("history:%s/n=%d", sv.Alg, n), Run: func(c *Ctx) { c14history(c, sv, n) }})
				}
				// purity and repeatability on long inputs (block-wise implementations change behaviour at size thresholds)
				for _, n := range []int{4096, 65537, 300001} {
					n := n
					if n > 100000 && sv.Alg != "CRC32" {
						continue // the loop-based services are interpreted step by step; 65 537 bytes is the stated bound for them
					}
					items = append(items, Item{ID: fmt.Sprintf("long:%s/n=%d", sv.Alg, n), Run: func(c *Ctx) { c14long(c, sv, n) }})
				}
			}
			return items
		}}
}

func (c *Ctx) calcFn(sv svcSpec) (*ssa.Function, types.Type) {
	fn := c.w.method("codec", sv.Name, "Calc")
	return fn, c.w.typeOf("codec", sv.Name)
}

func refChecksum(sv svcSpec, data []*Term, w int) *Term {
	switch sv.Kind {
	case "crc16":
		return crc16ModbusRef(data)
	case "crc32":
		return crc32IEEERef(data)
	}
	return ZExt(sum8(VecBytes(data), len(data)), w)
}

func c14stream(c *Ctx, sv svcSpec, n int) {
	e := c.e()
	fn, T := c.calcFn(sv)
	if fn == nil {
		c.Inconclusive("Calc of " + sv.Name + " not found")
		return
	}
	old := e.crcExact
	e.crcExact = 16
	defer func() { e.crcExact = old }()
	s := c.w.newState()
	data := make([]*Term, n)
	for i := range data {
		data[i] = e.freshVar("b", 8)
	}
	cons := e.freshVar("consumed", 8)
	bufID := s.newObj(&Obj{Kind: kBuffer, B: VecBytes(append([]*Term{cons}, data...)), R: CI(1)})
	recv := &Ptr{Obj: s.newObj(&Obj{Kind: kCell, Val: e.zero(T)})}
	steps := func(val func(*Term) uint64) []map[string]any {
		return []map[string]any{
			step("op", "newbuf", "buf", "b", "hex", "00"+hexOf(evalTerms(data, val)), "consume", 1),
			step("op", "calc", "alg", sv.Alg, "buf", "b"),
			step("op", "calc", "alg", sv.Alg, "buf", "b"),
		}
	}
	rw, _, _ := width(fn.Signature.Results().At(0).Type())
	_, signed, _ := width(fn.Signature.Results().At(0).Type())
	want := refChecksum(sv, data, rw)
	e.pushCall(s, fn, []Value{recv, &Ptr{Obj: bufID}}, nil)
	for _, fs := range e.Run(s) {
		if c.PathProblem(fs, "Calc", func(val func(*Term) uint64, msg string) *Violation {
			return &Violation{Obligation: "no-panic", Detail: sv.Alg + " Calc panics: " + msg, Replay: &ReplayReq{Steps: steps(val), Judge: Judge{Kind: "panic"}}}
		}) {
			continue
		}
		got := fs.ret.(*Term)
		expectRet := func(val func(*Term) uint64) any {
			v := val(want)
			if signed {
				return fmt.Sprint(sext(v, rw))
			}
			return fmt.Sprint(v)
		}
		c.Prove(fs, "equals-reference", Eq(got, want), func(val func(*Term) uint64) *Violation {
			return &Violation{Detail: fmt.Sprintf("%s of %d bytes differs from the independent formulation", sv.Alg, n), Model: map[string]any{"data_hex": hexOf(evalTerms(data, val)), "engine_result": val(got), "reference": val(want)},
				Replay: &ReplayReq{Steps: steps(val), Judge: Judge{Kind: "ret_ne", Step: 1, ExpectRet: expectRet(val)}}}
		})
		b := fs.heap[bufID]
		pure := And(Eq(b.R, CI(1)), Eq(b.B.Len, CI(int64(n+1))))
		if pure == True {
			var cs []*Term
			for i := 0; i < n; i++ {
				cs = append(cs, Eq(b.B.At(CI(int64(i+1))), data[i]))
			}
			pure = And(cs...)
		}
		c.Prove(fs, "buffer-untouched", pure, func(val func(*Term) uint64) *Violation {
			return &Violation{Detail: sv.Alg + " Calc consumes or modifies its buffer", Replay: &ReplayReq{Steps: steps(val), Judge: Judge{Kind: "ret_ne", Step: 1, ExpectRet: expectRet(val), Note: "pure"}}}
		})
		// second call gives the same result
		e.pushCall(fs, fn, []Value{recv, &Ptr{Obj: bufID}}, nil)
		for _, f2 := range e.Run(fs) {
			if c.PathProblem(f2, "Calc#2", nil) {
				continue
			}
			c.Prove(f2, "repeatable", Eq(f2.ret.(*Term), got), func(val func(*Term) uint64) *Violation {
				return &Violation{Detail: sv.Alg + " Calc gives a different result the second time", Replay: &ReplayReq{Steps: steps(val), Judge: Judge{Kind: "ret_ne", Step: 2, ExpectRet: expectRet(val)}}}
			})
		}
		c.Witness(fs, "stream", func(val func(*Term) uint64) any {
			return map[string]any{"alg": sv.Alg, "data_hex": hexOf(evalTerms(data, val)), "result": val(got)}
		})
	}
}

func c14checkValue(c *Ctx, sv svcSpec) {
	e := c.e()
	fn, T := c.calcFn(sv)
	if fn == nil {
		c.Inconclusive("Calc of " + sv.Name + " not found")
		return
	}
	old := e.crcExact
	e.crcExact = 16
	defer func() { e.crcExact = old }()
	s := c.w.newState()
	bufID := s.newObj(&Obj{Kind: kBuffer, B: ConstBytes("123456789"), R: CI(0)})
	recv := &Ptr{Obj: s.newObj(&Obj{Kind: kCell, Val: e.zero(T)})}
	steps := []map[string]any{step("op", "newbuf", "buf", "b", "hex", hexOf([]byte("123456789"))), step("op", "calc", "alg", sv.Alg, "buf", "b")}
	e.pushCall(s, fn, []Value{recv, &Ptr{Obj: bufID}}, nil)
	for _, fs := range e.Run(s) {
		if c.PathProblem(fs, "Calc", nil) {
			continue
		}
		got := fs.ret.(*Term)
		c.Prove(fs, "catalogue-check-value", Eq(got, C(got.W, sv.Check)), func(val func(*Term) uint64) *Violation {
			return &Violation{Detail: fmt.Sprintf("%s(\"123456789\") = %#x, catalogue check value is %#x", sv.Alg, val(got), sv.Check),
				Replay: &ReplayReq{Steps: steps, Judge: Judge{Kind: "ret_ne", Step: 1, ExpectRet: fmt.Sprint(sv.Check)}}}
		})
		c.res.Witness++
		c.res.Sample = map[string]any{"alg": sv.Alg, "input": "123456789", "result": fmt.Sprintf("%#x", got.Val)}
	}
}

// loopShape finds the outer loop of Calc: header block, accumulator phi, index phi.
func loopShape(fn *ssa.Function) (hdr *ssa.BasicBlock, acc, idx *ssa.Phi) {
	resT := fn.Signature.Results().At(0).Type()
	for _, b := range fn.Blocks {
		if len(b.Instrs) == 0 {
			continue
		}
		if _, ok := b.Instrs[0].(*ssa.Phi); !ok {
			continue
		}
		back := false
		for _, p := range b.Preds {
			if p.Index >= b.Index {
				back = true
			}
		}
		if !back {
			continue
		}
		var a, i *ssa.Phi
		nphi := 0
		for _, in := range b.Instrs {
			p, ok := in.(*ssa.Phi)
			if !ok {
				break
			}
			nphi++
			if types.Identical(p.Type(), resT) && a == nil {
				a = p
			} else if w, _, ok := width(p.Type()); ok && w == 64 && i == nil {
				i = p
			}
		}
		if a != nil && i != nil && nphi == 2 {
			return b, a, i
		}
		return nil, nil, nil
	}
	return nil, nil, nil
}

func c14lemmas(c *Ctx, sv svcSpec) {
	e := c.e()
	fn, T := c.calcFn(sv)
	if fn == nil {
		c.Inconclusive("Calc of " + sv.Name + " not found")
		return
	}
	if sv.Kind == "crc32" {
		c14crc32Arg(c, sv, fn, T)
		return
	}
	hdr, accPhi, idxPhi := loopShape(fn)
	if hdr == nil {
		c.res.Vacuous = append(c.res.Vacuous, "loop shape of "+sv.Name+".Calc not recognised: step lemmas unavailable, only the bounded stream checks are claimed")
		return
	}
	const maxN = 1 << 26
	w, _, _ := width(accPhi.Type())
	type cand struct {
		name string
		inv  func(acc, S *Term) *Term
	}
	var cands []cand
	if sv.Kind == "sum" {
		cands = []cand{
			{"acc = S mod 256", func(acc, S *Term) *Term { return Eq(acc, ZExt(Extract(7, 0, S), w)) }},
			{"acc = S mod 2^w", func(acc, S *Term) *Term { return Eq(acc, Extract(w-1, 0, S)) }},
		}
	} else {
		cands = []cand{{"acc = crc of the bytes so far (no ghost)", func(acc, S *Term) *Term { return True }}}
	}
	var lastFail func()
	for _, cd := range cands {
		cd := cd
		s := c.w.newState()
		acc := e.freshVar("acc", w)
		n := e.boundedVar(s, "n", 0, maxN)
		pos := e.boundedVar(s, "pos", 0, maxN)
		S := e.boundedVar(s, "S", 0, 255*maxN)
		s.pc = append(s.pc, Le(pos, n, true), Le(S, MulC(pos, 255), true), cd.inv(acc, S))
		arr := ArrVar(e.freshName("data"))
		data := &Bytes{Len: n}
		data.At = func(i *Term) *Term { return Select(arr, i) }
		bufID := s.newObj(&Obj{Kind: kBuffer, B: data, R: CI(0)})
		recv := &Ptr{Obj: s.newObj(&Obj{Kind: kCell, Val: e.zero(T)})}
		var accInit, idxInit *Term
		e.cutFn, e.cutHdr = fn, hdr
		e.cutInit = func(st *State, f *Frame) {
			for i, p := range hdr.Preds {
				if p == f.prev {
					accInit, _ = e.get(st, f, accPhi.Edges[i]).(*Term)
					idxInit, _ = e.get(st, f, idxPhi.Edges[i]).(*Term)
				}
			}
			d := CI(0)
			if idxInit != nil && idxInit.IsConst() {
				d = idxInit
			}
			f.locals[accPhi] = acc
			f.locals[idxPhi] = Add(pos, d)
		}
		e.pushCall(s, fn, []Value{recv, &Ptr{Obj: bufID}}, nil)
		finals := e.Run(s)
		e.cutFn, e.cutHdr, e.cutInit = nil, nil, nil
		if accInit == nil || idxInit == nil || !idxInit.IsConst() {
			c.res.Vacuous = append(c.res.Vacuous, "loop entry values of "+sv.Name+".Calc not constant: lemmas unavailable")
			return
		}
		b := Select(arr, pos)
		ok := true
		var fails []func()
		prove := func(st *State, name string, goal *Term, onSat func(val func(*Term) uint64) *Violation) {
			// tentative: only recorded if this candidate invariant is the one reported
			r := "unsat"
			if goal != True {
				r = e.solver.Check(append(append([]*Term{}, st.pc...), Not(goal))...)
			}
			if r == "unsat" {
				fails = append(fails, func() { c.res.Obl++; c.res.Dis++ })
				return
			}
			ok = false
			stc, goalc := st, goal
			fails = append(fails, func() { c.Prove(stc, name, goalc, onSat) })
		}
		// init
		var initGoal *Term
		if sv.Kind == "sum" {
			initGoal = cd.inv(accInit, CI(0))
		} else {
			initGoal = Eq(accInit, C(w, 0xFFFF))
		}
		prove(c.w.newState(), "init["+cd.name+"]", initGoal, func(val func(*Term) uint64) *Violation {
			return &Violation{Detail: fmt.Sprintf("%s: accumulator starts at %#x", sv.Alg, accInit.Val),
				Replay: &ReplayReq{Steps: []map[string]any{step("op", "newbuf", "buf", "b", "hex", ""), step("op", "calc", "alg", sv.Alg, "buf", "b")}, Judge: Judge{Kind: "ret_ne", Step: 1, ExpectRet: fmt.Sprint(map[string]uint64{"sum": 0, "crc16": 0xFFFF}[sv.Kind])}}}
		})
		nIter, nExit := 0, 0
		for _, fs := range finals {
			if c.PathProblem(fs, "Calc(loop body)", nil) {
				ok = false
				continue
			}
			if fs.cutDone {
				nIter++
				next, _ := fs.cutNext[accPhi].(*Term)
				nidx, _ := fs.cutNext[idxPhi].(*Term)
				var stepGoal *Term
				if sv.Kind == "sum" {
					stepGoal = cd.inv(next, Add(S, ZExt(b, 64)))
				} else {
					// Rocksoft model step in reflected form
					cr := Bin("bvxor", revBits(acc), Concat(revBits(b), C(8, 0)))
					for i := 0; i < 8; i++ {
						sh := Bin("bvshl", cr, C(16, 1))
						cr = Ite(Eq(Extract(15, 15, cr), C(1, 1)), Bin("bvxor", sh, C(16, 0x8005)), sh)
					}
					stepGoal = Eq(next, revBits(cr))
				}
				long := func(val func(*Term) uint64) *Violation {
					return &Violation{Detail: fmt.Sprintf("%s: one loop iteration from accumulator %#x on byte %#x (position %d) gives %#x, not the reference step", sv.Alg, val(acc), val(b), val(pos), val(next))}
				}
				prove(fs, "step["+cd.name+"]", stepGoal, long)
				prove(fs, "index-advances", And(Eq(nidx, Add(Add(pos, idxInit), CI(1))), Lt(pos, n, true)), long)
			} else {
				nExit++
				ret := fs.ret.(*Term)
				var exitGoal *Term
				if sv.Kind == "sum" {
					exitGoal = Eq(ret, ZExt(Extract(7, 0, S), w))
				} else {
					exitGoal = Eq(ret, acc)
				}
				prove(fs, "exit["+cd.name+"]", And(exitGoal, Eq(pos, n)), func(val func(*Term) uint64) *Violation {
					Sv, nv := val(S), val(n)
					v := &Violation{Detail: fmt.Sprintf("%s: with true byte sum %d over %d bytes the result is %d, not %d", sv.Alg, Sv, nv, sext(val(ret), w), Sv%256),
						Model: map[string]any{"S": Sv, "n": nv, "result": sext(val(ret), w)}}
					if sv.Kind == "sum" && nv <= 1<<27 {
						// build n bytes with sum S: q bytes 0xFF, one remainder byte, zeros
						q, r := Sv/255, Sv%255
						steps := []map[string]any{step("op", "fillbuf", "buf", "b", "n", int(q), "fill", 255)}
						rest := int64(nv) - int64(q)
						if r > 0 && rest > 0 {
							steps = append(steps, step("op", "fillbuf", "buf", "b", "n", 1, "fill", int(r)))
							rest--
						}
						if rest > 0 {
							steps = append(steps, step("op", "fillbuf", "buf", "b", "n", int(rest), "fill", 0))
						}
						steps = append(steps, step("op", "calc", "alg", sv.Alg, "buf", "b"))
						v.Replay = &ReplayReq{Steps: steps, Judge: Judge{Kind: "ret_ne", Step: len(steps) - 1, ExpectRet: fmt.Sprint(Sv % 256)}}
					}
					return v
				})
			}
		}
		if nIter == 0 || nExit == 0 {
			c.res.Vacuous = append(c.res.Vacuous, fmt.Sprintf("%s: loop exploration produced %d iteration and %d exit paths", sv.Alg, nIter, nExit))
			return
		}
		if ok {
			for _, f := range fails {
				f()
			}
			c.res.Witness++
			c.res.Sample = map[string]any{"alg": sv.Alg, "invariant": cd.name, "lemmas": []string{"init", "step", "index-advances", "exit"}, "length_bound": maxN}
			return
		}
		fl := fails
		lastFail = func() {
			for _, f := range fl {
				f()
			}
		}
	}
	// no candidate invariant closes the induction: report the obligations of the last candidate
	if lastFail != nil {
		lastFail()
	}
}

// c14crc32Arg: Crc32ChecksumService.Calc must be the CRC of exactly the unread bytes (symbolic length).
func c14crc32Arg(c *Ctx, sv svcSpec, fn *ssa.Function, T types.Type) {
	e := c.e()
	s := c.w.newState()
	g := &Gen{w: c.w, sc: c.sc}
	t := g.symText(s, "data", 64)
	cons := e.freshVar("consumed", 8)
	bufID := s.newObj(&Obj{Kind: kBuffer, B: Concat2(VecBytes([]*Term{cons}), t.S), R: CI(1)})
	recv := &Ptr{Obj: s.newObj(&Obj{Kind: kCell, Val: e.zero(T)})}
	crcLog = nil
	e.pushCall(s, fn, []Value{recv, &Ptr{Obj: bufID}}, nil)
	for _, fs := range e.Run(s) {
		if c.PathProblem(fs, "Calc", nil) {
			continue
		}
		got := fs.ret.(*Term)
		ok := False
		if len(crcLog) == 1 && crcLog[0].Res == got {
			ok = textEq(t.S, crcLog[0].Data, 64)
		}
		c.Prove(fs, "crc32-of-exactly-the-unread-bytes", ok, func(val func(*Term) uint64) *Violation {
			data := evalBytes(t.S, val)
			return &Violation{Detail: "CRC32 Calc is not hash/crc32 over exactly the unread bytes",
				Replay: &ReplayReq{Steps: []map[string]any{step("op", "newbuf", "buf", "b", "hex", "00"+hexOf(data), "consume", 1), step("op", "calc", "alg", "CRC32", "buf", "b")},
					Judge: Judge{Kind: "crc32_ne", Step: 1, ExpectHex: hexOf(data)}}}
		})
		b := fs.heap[bufID]
		c.Prove(fs, "buffer-untouched", And(Eq(b.R, CI(1)), Eq(b.B.Len, Add(t.S.Len, CI(1)))), nil)
		c.Witness(fs, "crc32 argument", nil)
	}
}

// c14pattern: the real Calc on n bytes that repeat a 4-byte symbolic pattern (b0 b1 b2 b3 b0 ...), against the
// 8-bit reference sum. One query covers all 2^32 patterns at that length.
func c14pattern(c *Ctx, sv svcSpec, n int) {
	e := c.e()
	fn, T := c.calcFn(sv)
	if fn == nil {
		c.Inconclusive("Calc of " + sv.Name + " not found")
		return
	}
	s := c.w.newState()
	pat := []*Term{e.freshVar("p0", 8), e.freshVar("p1", 8), e.freshVar("p2", 8), e.freshVar("p3", 8)}
	data := make([]*Term, n)
	for i := range data {
		data[i] = pat[i%4]
	}
	bufID := s.newObj(&Obj{Kind: kBuffer, B: VecBytes(data), R: CI(0)})
	recv := &Ptr{Obj: s.newObj(&Obj{Kind: kCell, Val: e.zero(T)})}
	oldU := e.unroll
	e.unroll = 10*n + 64
	defer func() { e.unroll = oldU }()
	rw, signed, _ := width(fn.Signature.Results().At(0).Type())
	// reference: (k0*b0 + k1*b1 + k2*b2 + k3*b3) mod 256 with the multiplicities of each pattern position
	want := C(8, 0)
	for j := 0; j < 4; j++ {
		k := (n - j + 3) / 4
		want = Add(want, Mul(C(8, uint64(k)), pat[j]))
	}
	wantW := ZExt(want, rw)
	steps := func(val func(*Term) uint64) []map[string]any {
		bs := make([]byte, n)
		for i := range bs {
			bs[i] = byte(val(pat[i%4]))
		}
		return []map[string]any{step("op", "newbuf", "buf", "b", "hex", hexOf(bs)), step("op", "calc", "alg", sv.Alg, "buf", "b")}
	}
	e.pushCall(s, fn, []Value{recv, &Ptr{Obj: bufID}}, nil)
	for _, fs := range e.Run(s) {
		if c.PathProblem(fs, "Calc", func(val func(*Term) uint64, msg string) *Violation {
			return &Violation{Obligation: "no-panic", Detail: sv.Alg + " Calc panics: " + msg, Replay: &ReplayReq{Steps: steps(val), Judge: Judge{Kind: "panic"}}}
		}) {
			continue
		}
		got := fs.ret.(*Term)
		c.Prove(fs, "equals-reference", Eq(got, wantW), func(val func(*Term) uint64) *Violation {
			w := val(wantW)
			exp := fmt.Sprint(w)
			if signed {
				exp = fmt.Sprint(sext(w, rw))
			}
			return &Violation{Detail: fmt.Sprintf("%s over %d bytes repeating the pattern %02x %02x %02x %02x is %d, reference %d", sv.Alg, n, val(pat[0]), val(pat[1]), val(pat[2]), val(pat[3]), sext(val(got), rw), w),
				Replay: &ReplayReq{Steps: steps(val), Judge: Judge{Kind: "ret_ne", Step: 1, ExpectRet: exp}}}
		})
		c.Witness(fs, "pattern", func(val func(*Term) uint64) any {
			return map[string]any{"alg": sv.Alg, "n": n, "pattern": fmt.Sprintf("%02x%02x%02x%02x", val(pat[0]), val(pat[1]), val(pat[2]), val(pat[3]))}
		})
	}
}

// c14long: the real Calc twice on a long concrete input (every byte 0x5A except a symbolic first byte is not
// needed: purity and repeatability do not depend on content): buffer untouched, same result both times.
func c14long(c *Ctx, sv svcSpec, n int) {
	e := c.e()
	fn, T := c.calcFn(sv)
	if fn == nil {
		c.Inconclusive("Calc of " + sv.Name + " not found")
		return
	}
	old, oldU := e.crcExact, e.unroll
	e.crcExact = 0
	e.unroll = 10*n + 64
	defer func() { e.crcExact, e.unroll = old, oldU }()
	s := c.w.newState()
	data := make([]*Term, n+1)
	fill := C(8, 0x5A)
	for i := range data {
		data[i] = fill
	}
	bufID := s.newObj(&Obj{Kind: kBuffer, B: VecBytes(data), R: CI(1)})
	recv := &Ptr{Obj: s.newObj(&Obj{Kind: kCell, Val: e.zero(T)})}
	steps := []map[string]any{
		step("op", "fillbuf", "buf", "b", "n", n, "fill", 0x5A),
		step("op", "calc", "alg", sv.Alg, "buf", "b"),
		step("op", "calc", "alg", sv.Alg, "buf", "b"),
	}
	e.pushCall(s, fn, []Value{recv, &Ptr{Obj: bufID}}, nil)
	for _, fs := range e.Run(s) {
		if c.PathProblem(fs, "Calc", func(val func(*Term) uint64, msg string) *Violation {
			return &Violation{Obligation: "no-panic", Detail: sv.Alg + " Calc panics on a long input: " + msg, Replay: &ReplayReq{Steps: steps, Judge: Judge{Kind: "panic"}}}
		}) {
			continue
		}
		got, _ := fs.ret.(*Term)
		b := fs.heap[bufID]
		pure := And(Eq(b.R, CI(1)), Eq(b.B.Len, CI(int64(n+1))))
		c.Prove(fs, "buffer-untouched", pure, func(val func(*Term) uint64) *Violation {
			return &Violation{Detail: fmt.Sprintf("%s Calc consumes or modifies a buffer of %d bytes (unread bytes afterwards: %d)", sv.Alg, n, int64(val(Sub(b.B.Len, b.R)))),
				Replay: &ReplayReq{Steps: steps, Judge: Judge{Kind: "calc_pure", Step: 1, Step2: 2}}}
		})
		e.pushCall(fs, fn, []Value{recv, &Ptr{Obj: bufID}}, nil)
		for _, f2 := range e.Run(fs) {
			if c.PathProblem(f2, "Calc#2", nil) {
				continue
			}
			g2, _ := f2.ret.(*Term)
			if got != nil && g2 != nil {
				c.Prove(f2, "repeatable", Eq(g2, got), func(val func(*Term) uint64) *Violation {
					return &Violation{Detail: fmt.Sprintf("%s Calc of the same %d bytes gives a different result the second time", sv.Alg, n),
						Replay: &ReplayReq{Steps: steps, Judge: Judge{Kind: "calc_pure", Step: 1, Step2: 2}}}
				})
			}
		}
		c.res.Witness++
		if c.res.Sample == nil {
			c.res.Sample = map[string]any{"alg": sv.Alg, "n": n}
		}
	}
}

// c14history: Calc on a buffer, then (a) the same buffer memory overwritten in place with other bytes of the same
// length, (b) a different buffer with other bytes: both results must be the checksum of the bytes given now. A
// service that remembers its last input (by reference or by content) answers from its memo.
func c14history(c *Ctx, sv svcSpec, n int) {
	e := c.e()
	fn, T := c.calcFn(sv)
	if fn == nil {
		c.Inconclusive("Calc of " + sv.Name + " not found")
		return
	}
	old := e.crcExact
	e.crcExact = 16
	defer func() { e.crcExact = old }()
	s := c.w.newState()
	mk := func(name string) []*Term {
		d := make([]*Term, n)
		for i := range d {
			d[i] = e.freshVar(name, 8)
		}
		return d
	}
	A, Bd, Cd := mk("a"), mk("b"), mk("c")
	bufID := s.newObj(&Obj{Kind: kBuffer, B: VecBytes(append([]*Term{}, A...)), R: CI(0)})
	buf2 := s.newObj(&Obj{Kind: kBuffer, B: VecBytes(append([]*Term{}, Cd...)), R: CI(0)})
	recv := &Ptr{Obj: s.newObj(&Obj{Kind: kCell, Val: e.zero(T)})}
	rw, signed, _ := width(fn.Signature.Results().At(0).Type())
	fmtRet := func(v uint64) any {
		if signed {
			return fmt.Sprint(sext(v, rw))
		}
		return fmt.Sprint(v)
	}
	steps := func(val func(*Term) uint64) []map[string]any {
		return []map[string]any{
			step("op", "newbuf", "buf", "b", "hex", hexOf(evalTerms(A, val))),
			step("op", "calc", "alg", sv.Alg, "buf", "b"),
			step("op", "overwrite", "buf", "b", "hex", hexOf(evalTerms(Bd, val))),
			step("op", "calc", "alg", sv.Alg, "buf", "b"),
			step("op", "newbuf", "buf", "c", "hex", hexOf(evalTerms(Cd, val))),
			step("op", "calc", "alg", sv.Alg, "buf", "c"),
		}
	}
	e.pushCall(s, fn, []Value{recv, &Ptr{Obj: bufID}}, nil)
	for _, f1 := range e.Run(s) {
		if c.PathProblem(f1, "Calc#1", nil) {
			continue
		}
		// (a) overwrite in place: same object, same length, new content
		o := f1.heap[bufID]
		o.B = VecBytes(append([]*Term{}, Bd...))
		f1.frames = nil
		e.pushCall(f1, fn, []Value{recv, &Ptr{Obj: bufID}}, nil)
		for _, f2 := range e.Run(f1) {
			if c.PathProblem(f2, "Calc after in-place overwrite", func(val func(*Term) uint64, msg string) *Violation {
				return &Violation{Obligation: "no-panic", Detail: sv.Alg + " Calc panics on a reused buffer: " + msg, Replay: &ReplayReq{Steps: steps(val), Judge: Judge{Kind: "panic"}}}
			}) {
				continue
			}
			wantB := refChecksum(sv, Bd, rw)
			c.Prove(f2, "overwritten-buffer:equals-reference", Eq(f2.ret.(*Term), wantB), func(val func(*Term) uint64) *Violation {
				return &Violation{Detail: fmt.Sprintf("%s: after the buffer's bytes were overwritten in place, Calc does not return the checksum of the new bytes", sv.Alg),
					Model:  map[string]any{"first_hex": hexOf(evalTerms(A, val)), "second_hex": hexOf(evalTerms(Bd, val)), "engine_result": val(f2.ret.(*Term)), "reference": val(wantB)},
					Replay: &ReplayReq{Steps: steps(val), Judge: Judge{Kind: "ret_ne", Step: 3, ExpectRet: fmtRet(val(wantB))}}}
			})
			// (b) another buffer with other content
			f2.frames = nil
			e.pushCall(f2, fn, []Value{recv, &Ptr{Obj: buf2}}, nil)
			for _, f3 := range e.Run(f2) {
				if c.PathProblem(f3, "Calc on another buffer", nil) {
					continue
				}
				wantC := refChecksum(sv, Cd, rw)
				c.Prove(f3, "other-buffer:equals-reference", Eq(f3.ret.(*Term), wantC), func(val func(*Term) uint64) *Violation {
					return &Violation{Detail: fmt.Sprintf("%s: the result for a second buffer depends on what the service computed before", sv.Alg),
						Model:  map[string]any{"earlier_hex": hexOf(evalTerms(Bd, val)), "now_hex": hexOf(evalTerms(Cd, val)), "engine_result": val(f3.ret.(*Term)), "reference": val(wantC)},
						Replay: &ReplayReq{Steps: steps(val), Judge: Judge{Kind: "ret_ne", Step: 5, ExpectRet: fmtRet(val(wantC))}}}
				})
				c.Witness(f3, "history", func(val func(*Term) uint64) any {
					return map[string]any{"alg": sv.Alg, "first_hex": hexOf(evalTerms(A, val)), "overwritten_hex": hexOf(evalTerms(Bd, val)), "other_hex": hexOf(evalTerms(Cd, val))}
				})
			}
		}
	}
}

// c14shared: Calc of the registered service instance (the one codec.Get hands to every caller) on a small buffer:
// no write to any object that existed after package initialisation. A stateful Calc (running register kept in
// the service) computes wrong values as soon as two goroutines use the service at once; replayed as parallel Calc
// calls on private buffers under the race detector, compared with the sequential results.
func c14shared(c *Ctx, sv svcSpec) {
	e := c.e()
	get := c.w.fn("codec.Get")
	fn, _ := c.calcFn(sv)
	if get == nil || fn == nil {
		c.Inconclusive("codec.Get / Calc not found")
		return
	}
	s := c.w.newState()
	e.pushCall(s, get, []Value{&StringV{B: ConstBytes(sv.Alg)}}, nil)
	fin := e.Run(s)
	if len(fin) != 1 || fin[0].panicd != "" || fin[0].cut != "" {
		c.Inconclusive("codec.Get did not run to a single result")
		return
	}
	s = fin[0]
	s.frames = nil
	tv, ok := s.ret.(TupleV)
	if !ok || len(tv) != 2 {
		c.Inconclusive("codec.Get result not understood")
		return
	}
	iv, ok := tv[0].(*IfaceV)
	if !ok || iv.T == nil {
		c.res.Vacuous = append(c.res.Vacuous, sv.Alg+" is not registered at start-up")
		return
	}
	data := make([]*Term, 5)
	for i := range data {
		data[i] = e.freshVar("b", 8)
	}
	bufID := s.newObj(&Obj{Kind: kBuffer, B: VecBytes(data), R: CI(0)})
	s.acc = nil
	steps := []map[string]any{step("op", "newbuf", "buf", "b", "hex", "0102030405060708090a0b0c0d0e0f"), step("op", "fillbuf", "buf", "b", "n", 200000, "fill", 7), step("op", "calc", "alg", sv.Alg, "buf", "b")}
	e.pushCall(s, fn, []Value{iv.V, &Ptr{Obj: bufID}}, nil)
	for _, fs := range e.Run(s) {
		if c.PathProblem(fs, "Calc(shared service)", nil) {
			continue
		}
		clean := true
		for _, a := range fs.acc {
			a := a
			if a.Write {
				clean = false
				c.Prove(fs, "calc-keeps-no-state-in-the-shared-service@"+a.Site, False, func(val func(*Term) uint64) *Violation {
					return &Violation{Detail: sv.Alg + " Calc writes to an object that exists since package initialisation (the registered service is shared by all callers) at " + a.Site,
						Replay: &ReplayReq{Steps: []map[string]any{step("op", "parallel", "threads", 8, "n", 40, "ops", steps)}, Judge: Judge{Kind: "anomaly", Step: 0, Note: "race"}}}
				})
				break
			}
		}
		if clean {
			c.res.Obl++
			c.res.Dis++
		}
		c.Witness(fs, "shared service", nil)
	}
}
