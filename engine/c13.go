package main

// C13 - fixed-width text primitives: exactly N bytes; pad or cut on write, strip only pad on read.

import "fmt"

var c13Widths = []int{0, 1, 2, 3, 4, 5, 6, 7, 8, 10, 12, 13, 16, 20, 32, 50, 64, 120, 160, 200}

func init() {
	drivers["C13"] = &Driver{Prop: "C13", Level: "model_checking",
		Explain: "the real WriteFixedStringWithPadding/Padding and ReadFixedStringTrimPadding are executed for each field width with a symbolic pad byte (0..255), symbolic side, symbolic text (length 0..N+2 on write, all N-byte images on read) and one symbolic prior/trailing buffer byte; the appended bytes / returned text are compared with the specification (pad or cut on write; strip only the maximal run of the pad byte on the pad side on read); short buffers must be errors; the default-pad wrappers and the list variants are run for counts 0..2",
		Assume:  []string{"standard-library contracts listed under trusted_base; bytes.Trim* with a non-ASCII cutset and string(rune>=0x80) are havocked, such counterexamples are decided by native replay", "widths: the 18 widths used by the 535 generated call sites plus 0, 5, 7"},
		Bounds: func(tier string) map[string]any {
			return map[string]any{"widths": c13Widths, "pad": "0..255 symbolic", "side": "symbolic", "write_text_length": "0..N+2 (thorough: 0..2N+2 for N<=16)", "read_image": "all N-byte images + 1 trailing byte", "list_counts": "0..2"}
		},
		Items: func(c *Ctx) []Item {
			var items []Item
			for _, N := range c13Widths {
				N := N
				items = append(items, Item{ID: fmt.Sprintf("write/N=%d", N), Run: func(c *Ctx) { c13write(c, N) }})
				items = append(items, Item{ID: fmt.Sprintf("read/N=%d/right", N), Run: func(c *Ctx) { c13readSide(c, N, false) }})
				items = append(items, Item{ID: fmt.Sprintf("read/N=%d/left", N), Run: func(c *Ctx) { c13readSide(c, N, true) }})
				if N > 0 {
					items = append(items, Item{ID: fmt.Sprintf("read-short/N=%d", N), Run: func(c *Ctx) { c13short(c, N) }})
				}
			}
			// list variants: every element must be treated exactly like the scalar field (own paths and fast paths
			// of the list helpers)
			for _, p := range c.primInstances() {
				p := p
				if p.Family != "ReadFixedStringListTrimPadding" || (!c.thorough() && p.TArgs[0] != "uint8" && p.TArgs[0] != "uint16") {
					continue
				}
				widths, counts := []int{3, 8}, []int{2}
				if c.thorough() {
					widths, counts = []int{1, 2, 3, 4, 8, 16}, []int{2, 3}
				}
				for _, N := range widths {
					for _, n := range counts {
						for _, side := range []bool{false, true} {
							N, n, side := N, n, side
							id := fmt.Sprintf("list-read:%s/N=%d/%s", p.Name, N, map[bool]string{false: "right", true: "left"}[side])
							if n != 2 {
								id += fmt.Sprintf("/n=%d", n)
							}
							items = append(items, Item{ID: id, Run: func(c *Ctx) { c13listRead(c, p, N, n, side) }})
						}
					}
				}
			}
			for _, N := range []int{1, 3, 8} {
				N := N
				items = append(items, Item{ID: fmt.Sprintf("default-write/N=%d", N), Run: func(c *Ctx) { c13default(c, N, true) }})
				items = append(items, Item{ID: fmt.Sprintf("default-read/N=%d", N), Run: func(c *Ctx) { c13default(c, N, false) }})
			}
			return items
		}}
}

func padArgs(c *Ctx, s *State) (pad *Term, left *Term) {
	e := c.e()
	pad = e.freshVar("pad", 32)
	s.pc = append(s.pc, Lt(pad, C(32, 256), false))
	left = e.freshVar("left", 0)
	return
}

func c13write(c *Ctx, N int) {
	e := c.e()
	fn := c.w.fn("codec.WriteFixedStringWithPadding")
	if fn == nil {
		c.Inconclusive("WriteFixedStringWithPadding not found")
		return
	}
	s := c.w.newState()
	maxLen := N + 2
	if c.thorough() && N <= 16 {
		maxLen = 2*N + 2
	}
	t := c.textArg(s, "s", maxLen)
	pad, left := padArgs(c, s)
	prior := e.freshVar("prior", 8)
	bufID := s.newObj(&Obj{Kind: kBuffer, B: VecBytes([]*Term{prior}), R: CI(0)})
	steps := func(val func(*Term) uint64) []map[string]any {
		return []map[string]any{
			step("op", "newbuf", "buf", "b", "hex", hexOf([]byte{byte(val(prior))})),
			step("op", "prim", "fn", "WriteFixedStringWithPadding", "args", []any{map[string]any{"buf": "b"}, concText(t, val), fmt.Sprint(N), fmt.Sprint(val(pad)), val(left) == 1}),
		}
	}
	e.pushCall(s, fn, []Value{&Ptr{Obj: bufID}, &StringV{B: t.S}, CI(int64(N)), pad, left}, nil)
	spec := refFixSym(t, N, Extract(7, 0, pad), left)
	for _, fs := range e.Run(s) {
		if c.PathProblem(fs, "WriteFixedStringWithPadding", func(val func(*Term) uint64, msg string) *Violation {
			return &Violation{Obligation: "no-panic", Detail: "WriteFixedStringWithPadding panics: " + msg, Replay: &ReplayReq{Steps: steps(val), Judge: Judge{Kind: "panic"}}}
		}) {
			continue
		}
		out := unread(fs.heap[bufID])
		mk := func(what string) func(val func(*Term) uint64) *Violation {
			return func(val func(*Term) uint64) *Violation {
				want := hexOf([]byte{byte(val(prior))}) + hexOf(evalBytes(spec, val))
				return &Violation{Detail: what, Model: map[string]any{"text": concText(t, val), "N": N, "pad": val(pad), "left": val(left) == 1},
					Replay: &ReplayReq{Steps: steps(val), Judge: Judge{Kind: "buf_ne", Step: 1, ExpectHex: want}}}
			}
		}
		if !isNilErr(fs.ret) {
			c.Prove(fs, "succeeds", False, mk("writer returns an error"))
			continue
		}
		c.Witness(fs, "write", func(val func(*Term) uint64) any {
			return map[string]any{"text": concText(t, val), "N": N, "pad": val(pad), "left": val(left) == 1, "out_hex": hexOf(evalBytes(out, val))}
		})
		if !c.Prove(fs, "exactly-N-bytes", Eq(out.Len, CI(int64(N+1))), mk(fmt.Sprintf("writer does not append exactly %d bytes", N))) {
			continue
		}
		c.Prove(fs, "prior-untouched", Eq(out.At(CI(0)), prior), mk("writer altered an earlier buffer byte"))
		var cs []*Term
		for j := 0; j < N; j++ {
			cs = append(cs, Eq(out.At(CI(int64(j+1))), spec.Vec[j]))
		}
		c.Prove(fs, "pad-or-cut", And(cs...), mk("bytes written differ from: verbatim / first N bytes / padded on the pad side"))
	}
}

func c13read(c *Ctx, N int) {
	for _, side := range []bool{false, true} {
		c13readSide(c, N, side)
	}
}

func c13readSide(c *Ctx, N int, leftSide bool) {
	e := c.e()
	fn := c.w.fn("codec.ReadFixedStringTrimPadding")
	if fn == nil {
		c.Inconclusive("ReadFixedStringTrimPadding not found")
		return
	}
	s := c.w.newState()
	w := make([]*Term, N+1)
	warr := ArrVar(e.freshName("w"))
	for i := range w {
		w[i] = Select(warr, CI(int64(i)))
	}
	pad, _ := padArgs(c, s)
	left := B(leftSide)
	p8 := Extract(7, 0, pad)
	bufID := s.newObj(&Obj{Kind: kBuffer, B: VecBytes(w), R: CI(0)})
	steps := func(val func(*Term) uint64) []map[string]any {
		return []map[string]any{
			step("op", "newbuf", "buf", "b", "hex", hexOf(evalTerms(w, val))),
			step("op", "prim", "fn", "ReadFixedStringTrimPadding", "args", []any{map[string]any{"buf": "b"}, fmt.Sprint(N), fmt.Sprint(val(pad)), leftSide}),
		}
	}
	spec := trimSym(w[:N], p8, leftSide)
	sideName := map[bool]string{false: "right", true: "left"}[leftSide]
	for _, fs := range e.RunMerged(s, fn, []Value{&Ptr{Obj: bufID}, CI(int64(N)), pad, left}) {
		if c.PathProblem(fs, "ReadFixedStringTrimPadding", func(val func(*Term) uint64, msg string) *Violation {
			return &Violation{Obligation: "no-panic", Detail: "ReadFixedStringTrimPadding panics: " + msg, Replay: &ReplayReq{Steps: steps(val), Judge: Judge{Kind: "panic"}}}
		}) {
			continue
		}
		rv := fs.ret.(TupleV)
		got := rv[0].(*StringV).B
		mk := func(what string) func(val func(*Term) uint64) *Violation {
			return func(val func(*Term) uint64) *Violation {
				return &Violation{Detail: what, Model: map[string]any{"image_hex": hexOf(evalTerms(w[:N], val)), "N": N, "pad": val(pad), "left": leftSide, "engine_result_hex": hexOf(evalBytes(got, val))},
					Replay: &ReplayReq{Steps: steps(val), Judge: Judge{Kind: "ret_ne", Step: 1, ExpectRet: map[string]any{"$hex": hexOf(evalBytes(spec, val))}}}}
			}
		}
		if !isNilErr(rv[1]) {
			c.Prove(fs, sideName+":succeeds", False, mk("reader returns an error on a full-width image"))
			continue
		}
		c.Witness(fs, "read", func(val func(*Term) uint64) any {
			return map[string]any{"image_hex": hexOf(evalTerms(w[:N], val)), "pad": val(pad), "left": leftSide, "text_hex": hexOf(evalBytes(got, val))}
		})
		c.Prove(fs, sideName+":consumes-N", Eq(unreadLen(fs.heap[bufID]), CI(1)), func(val func(*Term) uint64) *Violation {
			return &Violation{Detail: "reader does not consume exactly N bytes", Replay: &ReplayReq{Steps: steps(val), Judge: Judge{Kind: "buf_ne", Step: 1, ExpectHex: hexOf([]byte{byte(val(w[N]))})}}}
		})
		if c.Prove(fs, sideName+":strip-length", Eq(got.Len, spec.Len), mk("length of the returned text differs from: N minus the maximal run of the pad byte on the pad side")) {
			// content: one symbolic position covers every index (validity with idx free)
			idx := e.boundedVar(fs, "idx", 0, int64(N))
			c.Prove(fs, sideName+":strip-content", Implies(Lt(idx, spec.Len, true), Eq(spec.At(idx), got.At(idx))), mk("returned text differs from the field bytes with only the pad run removed"))
		}
	}
}

func c13short(c *Ctx, N int) {
	e := c.e()
	fn := c.w.fn("codec.ReadFixedStringTrimPadding")
	if fn == nil {
		c.Inconclusive("ReadFixedStringTrimPadding not found")
		return
	}
	s := c.w.newState()
	w := make([]*Term, N)
	for i := range w {
		w[i] = e.freshVar("w", 8)
	}
	k := e.boundedVar(s, "have", 0, int64(N-1))
	pad, left := padArgs(c, s)
	bufID := s.newObj(&Obj{Kind: kBuffer, B: SliceBytes(VecBytes(w), CI(0), k), R: CI(0)})
	e.pushCall(s, fn, []Value{&Ptr{Obj: bufID}, CI(int64(N)), pad, left}, nil)
	for _, fs := range e.Run(s) {
		steps := func(val func(*Term) uint64) []map[string]any {
			return []map[string]any{
				step("op", "newbuf", "buf", "b", "hex", hexOf(evalTerms(w, val)[:int(val(k))])),
				step("op", "prim", "fn", "ReadFixedStringTrimPadding", "args", []any{map[string]any{"buf": "b"}, fmt.Sprint(N), fmt.Sprint(val(pad)), val(left) == 1}),
			}
		}
		if c.PathProblem(fs, "ReadFixedStringTrimPadding(short)", func(val func(*Term) uint64, msg string) *Violation {
			return &Violation{Obligation: "no-panic", Detail: "reader panics on a short buffer: " + msg, Replay: &ReplayReq{Steps: steps(val), Judge: Judge{Kind: "panic"}}}
		}) {
			continue
		}
		rv := fs.ret.(TupleV)
		if isNilErr(rv[1]) {
			c.Prove(fs, "short-buffer-is-an-error", False, func(val func(*Term) uint64) *Violation {
				return &Violation{Detail: fmt.Sprintf("reader reports success with only %d of %d bytes present", val(k), N), Replay: &ReplayReq{Steps: steps(val), Judge: Judge{Kind: "err_nil", Step: 1}}}
			})
			continue
		}
		c.res.Obl++
		c.res.Dis++
		c.Witness(fs, "short", nil)
	}
}

// c13default: WriteFixedString / ReadFixedString (space, right) behave as the padded versions with (' ', false).
func c13default(c *Ctx, N int, write bool) {
	e := c.e()
	s := c.w.newState()
	if write {
		fn := c.w.fn("codec.WriteFixedString")
		if fn == nil {
			c.Inconclusive("WriteFixedString not found")
			return
		}
		t := c.textArg(s, "s", N+2)
		bufID := s.newObj(&Obj{Kind: kBuffer, B: EmptyBytes(), R: CI(0)})
		spec := refFixSym(t, N, C(8, ' '), False)
		steps := func(val func(*Term) uint64) []map[string]any {
			return []map[string]any{step("op", "newbuf", "buf", "b", "hex", ""),
				step("op", "prim", "fn", "WriteFixedString", "args", []any{map[string]any{"buf": "b"}, concText(t, val), fmt.Sprint(N)})}
		}
		e.pushCall(s, fn, []Value{&Ptr{Obj: bufID}, &StringV{B: t.S}, CI(int64(N))}, nil)
		for _, fs := range e.Run(s) {
			if c.PathProblem(fs, "WriteFixedString", nil) {
				continue
			}
			out := unread(fs.heap[bufID])
			mk := func(val func(*Term) uint64) *Violation {
				return &Violation{Detail: "WriteFixedString differs from space padding on the right", Replay: &ReplayReq{Steps: steps(val), Judge: Judge{Kind: "buf_ne", Step: 1, ExpectHex: hexOf(evalBytes(spec, val))}}}
			}
			if c.Prove(fs, "length", Eq(out.Len, CI(int64(N))), mk) {
				c.Prove(fs, "bytes", regionGoal(out, spec, CI(0), CI(int64(N)), N), mk)
			}
			c.Witness(fs, "default write", nil)
		}
		return
	}
	fn := c.w.fn("codec.ReadFixedString")
	if fn == nil {
		c.Inconclusive("ReadFixedString not found")
		return
	}
	w := make([]*Term, N)
	for i := range w {
		w[i] = e.freshVar("w", 8)
	}
	bufID := s.newObj(&Obj{Kind: kBuffer, B: VecBytes(w), R: CI(0)})
	spec := trimSym(w, C(8, ' '), false)
	steps := func(val func(*Term) uint64) []map[string]any {
		return []map[string]any{step("op", "newbuf", "buf", "b", "hex", hexOf(evalTerms(w, val))),
			step("op", "prim", "fn", "ReadFixedString", "args", []any{map[string]any{"buf": "b"}, fmt.Sprint(N)})}
	}
	e.pushCall(s, fn, []Value{&Ptr{Obj: bufID}, CI(int64(N))}, nil)
	for _, fs := range e.Run(s) {
		if c.PathProblem(fs, "ReadFixedString", nil) {
			continue
		}
		rv := fs.ret.(TupleV)
		got := rv[0].(*StringV).B
		mk := func(val func(*Term) uint64) *Violation {
			return &Violation{Detail: "ReadFixedString differs from stripping trailing spaces only", Replay: &ReplayReq{Steps: steps(val), Judge: Judge{Kind: "ret_ne", Step: 1, ExpectRet: map[string]any{"$hex": hexOf(evalBytes(spec, val))}}}}
		}
		if !isNilErr(rv[1]) {
			c.Prove(fs, "succeeds", False, mk)
			continue
		}
		if c.Prove(fs, "length", Eq(got.Len, spec.Len), mk) {
			c.Prove(fs, "content", textEq(spec, got, N), mk)
		}
		c.Witness(fs, "default read", nil)
	}
}

// trimSym: specification of reading a fixed text field with a symbolic pad byte.
func trimSym(w []*Term, pad *Term, left bool) *Bytes {
	N := len(w)
	if !left {
		L := CI(0)
		for j := 0; j < N; j++ {
			L = Ite(Eq(w[j], pad), L, CI(int64(j+1)))
		}
		return SliceBytes(VecBytes(w), CI(0), L)
	}
	K := CI(int64(N))
	for j := N - 1; j >= 0; j-- {
		K = Ite(Eq(w[j], pad), K, CI(int64(j)))
	}
	b := &Bytes{Len: Sub(CI(int64(N)), K)}
	vb := VecBytes(w)
	b.At = memoAt(func(i *Term) *Term { return vb.At(Add(K, i)) })
	return b.Norm()
}

// c13listRead: the list reader on count n followed by n arbitrary N-byte images: element i must equal the scalar
// specification (strip only the maximal pad run on the pad side) of image i.
func c13listRead(c *Ctx, p primInst, N, n int, leftSide bool) {
	e := c.e()
	s := c.w.newState()
	arr := ArrVar(e.freshName("w"))
	w := make([]*Term, n*N+1)
	for i := range w {
		w[i] = Select(arr, CI(int64(i)))
	}
	pad, _ := padArgs(c, s)
	p8 := Extract(7, 0, pad)
	pre := prefixBytes(p.TArgs[0], CI(int64(n)), p.LE)
	in := VecBytes(append(append([]*Term{}, pre...), w...))
	bufID := s.newObj(&Obj{Kind: kBuffer, B: in, R: CI(0)})
	steps := func(val func(*Term) uint64) []map[string]any {
		return []map[string]any{
			step("op", "newbuf", "buf", "b", "hex", hexOf(evalBytes(in, val))),
			step("op", "prim", "fn", p.Name, "args", []any{map[string]any{"buf": "b"}, fmt.Sprint(N), fmt.Sprint(val(pad)), leftSide}),
		}
	}
	args := []Value{&Ptr{Obj: bufID}, CI(int64(N)), pad, B(leftSide)}
	if p.Fn.Signature.Params().Len() != len(args) {
		panic(bindErr("signature of " + p.Name))
	}
	specs := make([]*Bytes, n)
	for i := range specs {
		specs[i] = trimSym(w[i*N:(i+1)*N], p8, leftSide)
	}
	e.pushCall(s, p.Fn, args, nil)
	for _, fs := range e.Run(s) {
		if c.PathProblem(fs, p.Name, func(val func(*Term) uint64, msg string) *Violation {
			return &Violation{Obligation: "no-panic", Detail: p.Name + " panics: " + msg, Replay: &ReplayReq{Steps: steps(val), Judge: Judge{Kind: "panic"}}}
		}) {
			continue
		}
		rv := fs.ret.(TupleV)
		mk := func(what string) func(val func(*Term) uint64) *Violation {
			return func(val func(*Term) uint64) *Violation {
				want := make([]any, n)
				for i := range want {
					want[i] = map[string]any{"$hex": hexOf(evalBytes(specs[i], val))}
				}
				return &Violation{Detail: what, Model: map[string]any{"input_hex": hexOf(evalBytes(in, val)), "N": N, "pad": val(pad), "left": leftSide},
					Replay: &ReplayReq{Steps: steps(val), Judge: Judge{Kind: "ret_ne", Step: 1, ExpectRet: want}}}
			}
		}
		if !isNilErr(rv[1]) {
			c.Prove(fs, "succeeds", False, mk(p.Name+" returns an error on full-width images"))
			continue
		}
		res := rv[0].(*SliceV)
		if !c.Prove(fs, "element-count", Eq(res.Len, CI(int64(n))), mk(p.Name+" returns a different number of elements")) {
			continue
		}
		c.Prove(fs, "consumes-list", Eq(unreadLen(fs.heap[bufID]), CI(1)), mk(p.Name+" does not consume exactly the list"))
		o := fs.heap[res.Obj]
		for i := 0; i < n; i++ {
			sv, ok := o.E[int(res.Off.Val)+i].(*StringV)
			if !ok {
				c.Inconclusive("list element is not a string value")
				continue
			}
			got := sv.B
			if c.Prove(fs, fmt.Sprintf("elem%d:strip-length", i), Eq(got.Len, specs[i].Len), mk(fmt.Sprintf("%s: length of element %d differs from: N minus the maximal run of the pad byte on the pad side", p.Name, i))) {
				idx := e.boundedVar(fs, "idx", 0, int64(N))
				c.Prove(fs, fmt.Sprintf("elem%d:strip-content", i), Implies(Lt(idx, specs[i].Len, true), Eq(specs[i].At(idx), got.At(idx))), mk(fmt.Sprintf("%s: element %d differs from its field bytes with only the pad run removed", p.Name, i)))
			}
		}
		c.Witness(fs, "list read", func(val func(*Term) uint64) any {
			return map[string]any{"fn": p.Name, "input_hex": hexOf(evalBytes(in, val)), "pad": val(pad), "left": leftSide}
		})
	}
}
