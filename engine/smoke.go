package main

import "fmt"

func smoke(w *World) {
	e := w.e
	wfs := w.fn("codec.WriteFixedStringWithPadding")
	for _, N := range []int{1, 10} {
		s := w.newState()
		L := e.boundedVar(s, "len", 0, int64(N+2))
		arr := ArrVar(e.freshName("str"))
		b := &Bytes{Len: L}
		b.At = func(i *Term) *Term { return Select(arr, i) }
		pad := e.freshVar("pad", 32)
		s.pc = append(s.pc, Lt(pad, C(32, 0x80), false))
		side := e.freshVar("left", 0)
		bufID := s.newObj(&Obj{Kind: kBuffer, B: EmptyBytes(), R: CI(0)})
		e.pushCall(s, wfs, []Value{&Ptr{Obj: bufID}, &StringV{B: b}, CI(int64(N)), pad, side}, nil)
		fin := e.Run(s)
		for _, fs := range fin {
			fmt.Println("N", N, "final: panic", fs.panicd, "cut", fs.cut, "len", fs.heap[bufID].B.Len.Val, "ret", fs.ret)
		}
	}
	fmt.Println("queries", e.solver.Queries, "time", e.solver.Time)
}
