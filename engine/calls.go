package main

// Calls: dispatch, standard-library intrinsics (the trusted contracts), merge-at-return.

import (
	"fmt"
	"go/types"
	"hash/crc32"
	"strings"
	"time"

	"golang.org/x/tools/go/ssa"
)

var strType = types.Typ[types.String]

func errVal(tag string) *IfaceV { return &IfaceV{T: strType, V: &ErrTag{tag}} }

var errEOF = errVal("io.EOF")
var errUEOF = errVal("io.ErrUnexpectedEOF")
var nilErr = &IfaceV{}

func (e *Engine) freshErr(what string) *IfaceV {
	e.fresh++
	return errVal(fmt.Sprintf("fresh:%s#%d", what, e.fresh))
}

// TrustedBase lists the standard-library contracts used instead of symbolic execution.
var TrustedBase = []string{
	"(*bytes.Buffer).Write/WriteString/WriteByte: append a copy, return (n,nil)",
	"(*bytes.Buffer).Len/Bytes/Next/Read/ReadByte/Reset/Truncate/Grow/Cap/String, bytes.NewBuffer/NewBufferString: documented semantics on the unread region; Bytes/Next alias the buffer object",
	"io.ReadFull(*bytes.Buffer,p): len(p)=0 -> (0,nil); enough -> copy,(len,nil); empty -> (0,EOF); short -> copy all, (n,ErrUnexpectedEOF)",
	"encoding/binary.Write/Read on *bytes.Buffer with fixed-size scalars, pointers to them and slices of them; other dynamic types: error result",
	"bytes.Repeat: negative count panics, else count copies",
	"bytes/strings.TrimRight/TrimLeft/Trim with ASCII cutset, TrimSpace (ASCII): exact; other cutsets: arbitrary sub-slice (havoc)",
	"string(rune): exact UTF-8 below 0x80 and for constants, havoc (2..4 bytes) for symbolic runes >= 0x80",
	"hash/crc32.ChecksumIEEE: bit-serial reflected CRC-32 (poly 0xEDB88320, init/xorout 0xFFFFFFFF) for concrete lengths <= 64, otherwise an uninterpreted result tied to its argument bytes",
	"fmt.Errorf/errors.New: fresh non-nil error, no other effect; fmt.Sprintf: arbitrary string",
	"sync.(RW)Mutex: ghost lock state; Lock on a held mutex = deadlock, Unlock of a free mutex = fatal",
	"sync/atomic Load/Store/Add/CompareAndSwap on integers: sequentially consistent memory operations",
	"builtins len cap append copy delete min max with Go semantics; append always reallocates (no aliasing with the old backing array)",
	"encoding/binary.ByteOrder methods (PutUintNN/UintNN): executed from their real SSA",
	"unsafe.String/Slice/StringData/SliceData: aliasing views of the same object",
}

func (e *Engine) call(s *State, f *Frame, cc ssa.CallCommon, x *ssa.Call) []*State {
	var args []Value
	for _, a := range cc.Args {
		args = append(args, e.get(s, f, a))
	}
	fnv := e.get(s, f, cc.Value)
	return e.callValue(s, f, &cc, fnv, args, x, e.site(x.Pos()))
}

func setRes(st *State, x *ssa.Call, v Value) {
	if x == nil {
		return
	}
	st.frames[len(st.frames)-1].locals[x] = v
}

func (e *Engine) callValue(s *State, f *Frame, cc *ssa.CallCommon, fnv Value, args []Value, x *ssa.Call, site string) []*State {
	set := func(v Value) { setRes(s, x, v) }
	if cc.IsInvoke() {
		iv := fnv.(*IfaceV)
		if iv.T == nil {
			s.panicd = "nil pointer dereference (method call on nil interface) at " + site
			return nil
		}
		if tag, isErr := iv.V.(*ErrTag); isErr {
			switch cc.Method.Name() {
			case "Error":
				set(&StringV{B: ConstBytes("error:" + tag.Msg)})
				return nil
			case "Unwrap":
				set(nilErr)
				return nil
			}
		}
		m := e.prog.LookupMethod(iv.T, cc.Method.Pkg(), cc.Method.Name())
		if m == nil {
			panic(engineUnsupported("method " + cc.Method.Name() + " not found on " + iv.T.String()))
		}
		return e.dispatch(s, f, m, append([]Value{iv.V}, args...), nil, x, site)
	}
	if b, ok := fnv.(*ssa.Builtin); ok {
		return e.builtin(s, f, b, cc, args, x, site)
	}
	fv, ok := fnv.(*FuncV)
	if !ok {
		panic(fmt.Sprintf("call of %T", fnv))
	}
	if fv.Fn == nil {
		s.panicd = "call of nil function at " + site
		return nil
	}
	return e.dispatch(s, f, fv.Fn, args, fv.Bind, x, site)
}

func (e *Engine) builtin(s *State, f *Frame, b *ssa.Builtin, cc *ssa.CallCommon, args []Value, x *ssa.Call, site string) []*State {
	set := func(v Value) { setRes(s, x, v) }
	switch b.Name() {
	case "len":
		switch v := args[0].(type) {
		case *SliceV:
			set(v.Len)
		case *StringV:
			set(v.B.Len)
		case *Ptr: // map or *array
			if v.Obj == 0 {
				set(CI(0))
			} else if o := s.heap[v.Obj]; o.Kind == kMap {
				e.access(s, v.Obj, false, site)
				if e.havocLookup[v.Obj] {
					// unknown content (C19 layer 3): empty or not, recorded as an event whose consistency with the
					// tracked keys the schedule query decides
					o2 := s.clone()
					o2.trace = append(o2.trace, TraceEv{Kind: "lenzero", Obj: v.Obj, Res: true, Site: site})
					setRes(o2, x, CI(0))
					s.trace = append(s.trace, TraceEv{Kind: "lenzero", Obj: v.Obj, Res: false, Site: site})
					set(e.boundedVar(s, "maplen", 1, 1<<20))
					return []*State{o2}
				}
				set(CI(int64(len(o.M))))
			} else if o.Kind == kElems {
				set(CI(int64(len(o.E))))
			} else {
				set(o.B.Len)
			}
		default:
			panic(engineUnsupported(fmt.Sprintf("len of %T", v)))
		}
	case "cap":
		switch v := args[0].(type) {
		case *SliceV:
			set(v.Cap)
		default:
			panic(engineUnsupported(fmt.Sprintf("cap of %T", v)))
		}
	case "append":
		if sv, isStr := args[1].(*StringV); isStr { // append([]byte, string...)
			id := s.newObj(&Obj{Kind: kBytes, B: sv.B})
			args[1] = &SliceV{Obj: id, Off: CI(0), Len: sv.B.Len, Cap: sv.B.Len}
		}
		set(e.appendSlice(s, args[0].(*SliceV), args[1].(*SliceV), x.Type(), site))
	case "copy":
		dst := args[0].(*SliceV)
		var src *Bytes
		switch sv := args[1].(type) {
		case *SliceV:
			if sv.Obj == 0 {
				src = EmptyBytes()
			} else {
				if s.heap[sv.Obj].Kind == kElems {
					return e.copyElems(s, dst, sv, x)
				}
				src = SliceBytes(s.heap[sv.Obj].B, sv.Off, Add(sv.Off, sv.Len))
			}
		case *StringV:
			src = sv.B
		}
		if dst.Obj == 0 {
			set(CI(0))
			return nil
		}
		n := Ite(Lt(src.Len, dst.Len, true), src.Len, dst.Len)
		o := s.heap[dst.Obj]
		e.access(s, dst.Obj, true, site)
		o.B = OverwriteBytes(o.B, dst.Off, SliceBytes(src, CI(0), n))
		set(n)
	case "delete":
		mp := args[0].(*Ptr)
		if mp.Obj == 0 {
			return nil
		}
		e.access(s, mp.Obj, true, site)
		if mp.Obj <= e.baseMax {
			s.trace = append(s.trace, TraceEv{Kind: "delete", Obj: mp.Obj, Key: constKey(args[1]), Site: site})
		}
		m := s.heap[mp.Obj]
		var conds []*Term
		var none []*Term
		symbolic := false
		for _, en := range m.M {
			cnd := keyEqTerm(en.K, args[1])
			conds = append(conds, cnd)
			none = append(none, Not(cnd))
			if !cnd.IsBoolConst() {
				symbolic = true
			}
		}
		if !symbolic {
			var out []MapEntry
			for i, en := range m.M {
				if conds[i] != True {
					out = append(out, en)
				}
			}
			m.M = out
			return nil
		}
		// symbolic key: one branch per entry that may match, one for "absent"
		conds = append(conds, And(none...))
		return e.forkN(s, conds, func(st *State, i int) {
			mm := st.heap[mp.Obj]
			if i < len(mm.M) {
				mm.M = append(append([]MapEntry{}, mm.M[:i]...), mm.M[i+1:]...)
			}
		})
	case "min", "max":
		acc := args[0].(*Term)
		_, signed, _ := width(cc.Args[0].Type())
		for _, a := range args[1:] {
			t := a.(*Term)
			if b.Name() == "min" {
				acc = Ite(Lt(t, acc, signed), t, acc)
			} else {
				acc = Ite(Lt(acc, t, signed), t, acc)
			}
		}
		set(acc)
	case "recover":
		set(&IfaceV{})
	case "SliceData": // unsafe.SliceData
		sl := args[0].(*SliceV)
		if sl.Obj == 0 {
			set(&Ptr{})
		} else {
			set(&Ptr{Obj: sl.Obj, Path: []PathElem{{Idx: sl.Off}}})
		}
	case "StringData": // unsafe.StringData: pointer into a fresh read-only copy (or the aliased object)
		sv := args[0].(*StringV)
		if sv.Alias != 0 {
			set(&Ptr{Obj: sv.Alias, Path: []PathElem{{Idx: CI(0)}}})
			s.imprec = append(s.imprec, "unsafe.StringData of an aliased string at "+site)
		} else {
			id := s.newObj(&Obj{Kind: kBytes, B: sv.B})
			set(&Ptr{Obj: id, Path: []PathElem{{Idx: CI(0)}}})
		}
	case "String": // unsafe.String(ptr, len): shares the memory of the object ptr points into
		p := args[0].(*Ptr)
		n := e.toInt(args[1].(*Term), cc.Args[1].Type())
		if p.Obj == 0 {
			set(&StringV{B: EmptyBytes()})
		} else {
			off := CI(0)
			if len(p.Path) > 0 && p.Path[0].Idx != nil {
				off = p.Path[0].Idx
			}
			o := s.heap[p.Obj]
			set(&StringV{B: SliceBytes(o.B, off, Add(off, n)), Alias: p.Obj})
		}
	case "Slice": // unsafe.Slice(ptr, len)
		p := args[0].(*Ptr)
		n := e.toInt(args[1].(*Term), cc.Args[1].Type())
		off := CI(0)
		if len(p.Path) > 0 && p.Path[0].Idx != nil {
			off = p.Path[0].Idx
		}
		if pt, ok := cc.Args[0].Type().Underlying().(*types.Pointer); ok && p.Obj != 0 {
			if o := s.heap[p.Obj]; (o.Kind == kBytes || o.Kind == kBuffer) && sizeOf(pt.Elem()) != 1 {
				// bytes viewed as wider elements: a view object whose elements are unknown here (their values are
				// the bytes in host order) and which shares the memory of the byte object
				if !n.IsConst() || n.Val > 1<<20 {
					panic(engineUnsupported("unsafe.Slice view of bytes with a symbolic element count at " + site))
				}
				vo := &Obj{Kind: kElems, ET: pt.Elem()}
				w, _, okw := width(pt.Elem())
				if !okw {
					panic(engineUnsupported("unsafe.Slice view of bytes as " + pt.Elem().String()))
				}
				for i := 0; i < int(n.Val); i++ {
					vo.E = append(vo.E, e.freshVar("viewel", w))
				}
				id := s.newObj(vo)
				s.aliasNote(id, p.Obj)
				s.imprec = append(s.imprec, "unsafe.Slice view of bytes as wider elements: element values not tracked at "+site)
				set(&SliceV{Obj: id, Off: CI(0), Len: n, Cap: n})
				break
			}
		}
		set(&SliceV{Obj: p.Obj, Off: off, Len: n, Cap: n})
	case "print", "println":
	case "clear":
		switch v := args[0].(type) {
		case *Ptr:
			if v.Obj != 0 {
				e.access(s, v.Obj, true, site)
				s.heap[v.Obj].M = nil
			}
		default:
			panic(engineUnsupported("clear of slice"))
		}
	case "Sizeof":
		// unsafe.Sizeof of a value whose type is only known per instantiation
		set(C(64, uint64(types.SizesFor("gc", "amd64").Sizeof(cc.Args[0].Type()))))
	case "Alignof":
		set(C(64, uint64(types.SizesFor("gc", "amd64").Alignof(cc.Args[0].Type()))))
	default:
		panic(engineUnsupported("builtin " + b.Name()))
	}
	return nil
}

func (e *Engine) copyElems(s *State, dst, src *SliceV, x *ssa.Call) []*State {
	if !dst.Len.IsConst() || !src.Len.IsConst() || !dst.Off.IsConst() || !src.Off.IsConst() {
		panic(engineUnsupported("copy of element slices with symbolic bounds"))
	}
	n := int(min(dst.Len.Val, src.Len.Val))
	d, so := s.heap[dst.Obj], s.heap[src.Obj]
	tmp := append([]Value{}, so.E[int(src.Off.Val):int(src.Off.Val)+n]...)
	d.ownE()
	copy(d.E[int(dst.Off.Val):], tmp)
	setRes(s, x, CI(int64(n)))
	return nil
}

func ubOfConst(t *Term) (int64, bool) {
	if t.IsConst() {
		return int64(t.Val), true
	}
	return 0, false
}

func (e *Engine) appendSlice(s *State, a, b *SliceV, t types.Type, site string) Value {
	el := t.Underlying().(*types.Slice).Elem()
	// Go appends in place while the capacity suffices: the result then shares the backing array with every other
	// slice of it (a block that is re-sliced to [:0] and refilled hands out the same elements again). Modelled
	// exactly when the geometry is concrete; otherwise (and when the capacity is exhausted) a fresh array with
	// cap == len, i.e. sharing created by the runtime's over-allocation on growth is not modelled.
	if a.Obj != 0 && a.Off.IsConst() && a.Len.IsConst() && a.Cap.IsConst() && b.Len.IsConst() && (b.Obj == 0 || b.Off.IsConst()) &&
		a.Len.Val+b.Len.Val <= a.Cap.Val && b.Len.Val > 0 {
		o := s.heap[a.Obj]
		at := int(a.Off.Val + a.Len.Val)
		nb := int(b.Len.Val)
		if o.Kind == kElems && !isByteElem(el) && at+nb <= len(o.E) {
			src := s.heap[b.Obj]
			e.access(s, a.Obj, true, site)
			vals := make([]Value, nb)
			for i := 0; i < nb; i++ {
				vals[i] = src.E[int(b.Off.Val)+i]
			}
			o.ownE()
			copy(o.E[at:], vals)
			return &SliceV{Obj: a.Obj, Off: a.Off, Len: CI(int64(a.Len.Val + b.Len.Val)), Cap: a.Cap, View: a.View, Epoch: a.Epoch}
		}
		if (o.Kind == kBytes || o.Kind == kBuffer) && isByteElem(el) {
			if L, ok := ubOfConst(o.B.Len); ok && int64(at+nb) <= L {
				bb := SliceBytes(s.heap[b.Obj].B, b.Off, Add(b.Off, b.Len))
				e.access(s, a.Obj, true, site)
				o.B = OverwriteBytes(o.B, CI(int64(at)), bb)
				return &SliceV{Obj: a.Obj, Off: a.Off, Len: CI(int64(a.Len.Val + b.Len.Val)), Cap: a.Cap, View: a.View, Epoch: a.Epoch}
			}
		}
	}
	if isByteElem(el) {
		var ab, bb *Bytes = EmptyBytes(), EmptyBytes()
		if a.Obj != 0 {
			ab = SliceBytes(s.heap[a.Obj].B, a.Off, Add(a.Off, a.Len))
		}
		if b.Obj != 0 {
			bb = SliceBytes(s.heap[b.Obj].B, b.Off, Add(b.Off, b.Len))
		}
		r := Concat2(ab, bb)
		s.allocs = append(s.allocs, AllocRec{Size: Add(MulC(r.Len, 2), CI(64)), Site: site})
		nid := s.newObj(&Obj{Kind: kBytes, B: r, ET: el})
		if a.Obj != 0 && !a.Cap.IsConst() {
			// the capacity is not known: the append may well have happened in place, in which case the result is
			// the same memory as a (recorded as possible sharing; decided by the native replay)
			s.aliasNote(nid, a.Obj)
		}
		return &SliceV{Obj: nid, Off: CI(0), Len: r.Len, Cap: r.Len}
	}
	var out []Value
	for _, sl := range []*SliceV{a, b} {
		if sl.Obj == 0 {
			continue
		}
		if !sl.Len.IsConst() || !sl.Off.IsConst() {
			panic(engineUnsupported("append on element slice with symbolic length at " + site))
		}
		o := s.heap[sl.Obj]
		for i := 0; i < int(sl.Len.Val); i++ {
			out = append(out, o.E[int(sl.Off.Val)+i])
		}
	}
	n := CI(int64(len(out)))
	// amortised growth: at most 2*len*elemsize + 64 bytes are newly requested
	s.allocs = append(s.allocs, AllocRec{Size: CI(2*int64(len(out))*sizeOf(el) + 64), Site: site})
	return &SliceV{Obj: s.newObj(&Obj{Kind: kElems, E: out, ET: el}), Off: CI(0), Len: n, Cap: n}
}

// forkBool splits on cond; apply runs on each feasible branch state (s itself is reused for one of them).
func (e *Engine) forkBool(s *State, f *Frame, c *Term, apply func(st *State, yes bool)) []*State {
	if c == True {
		apply(s, true)
		return nil
	}
	if c == False {
		apply(s, false)
		return nil
	}
	tf := e.feasible(s, c)
	ff := true
	if tf {
		ff = e.feasible(s, Not(c))
	}
	switch {
	case tf && ff:
		o := s.clone()
		o.pc = append(o.pc, Not(c))
		apply(o, false)
		s.pc = append(s.pc, c)
		apply(s, true)
		return []*State{o}
	case tf:
		apply(s, true)
	default:
		apply(s, false)
	}
	return nil
}

func bufObj(s *State, v Value) (*Obj, int) {
	switch p := v.(type) {
	case *Ptr:
		if p.Obj == 0 {
			return nil, 0
		}
		o := s.heap[p.Obj]
		if o.Kind == kCell && len(p.Path) == 0 {
			if _, isStruct := o.Val.(*StructV); isStruct {
				// a bytes.Buffer that lives in a variable (package-level or local `var b bytes.Buffer`) and has not
				// been used yet: its zero value is an empty buffer
				o.Kind, o.B, o.R, o.Val = kBuffer, EmptyBytes(), CI(0), nil
			}
		}
		if o.Kind != kBuffer {
			panic(engineUnsupported("bytes.Buffer method on a non-buffer object"))
		}
		return o, p.Obj
	case *IfaceV:
		if p.T == nil {
			return nil, 0
		}
		return bufObj(s, p.V)
	}
	panic(fmt.Sprintf("buffer argument %T", v))
}

func unread(o *Obj) *Bytes   { return SliceBytes(o.B, o.R, o.B.Len) }
func unreadLen(o *Obj) *Term { return Sub(o.B.Len, o.R) }

func sliceContent(s *State, sl *SliceV) *Bytes {
	if sl.Obj == 0 {
		return EmptyBytes()
	}
	o := s.heap[sl.Obj]
	if o.B == nil && o.E != nil && sl.Off.IsConst() && sl.Len.IsConst() {
		// a []uint8 / []int8 kept element-wise (lists built by the drivers): its bytes are its elements
		var bs []*Term
		for i := int(sl.Off.Val); i < int(sl.Off.Val+sl.Len.Val) && i < len(o.E); i++ {
			t, ok := o.E[i].(*Term)
			if !ok || t.W != 8 {
				panic(engineUnsupported("byte view of a slice whose elements are not bytes"))
			}
			bs = append(bs, t)
		}
		return VecBytes(bs)
	}
	if o.B == nil {
		panic(engineUnsupported("byte view of a non-byte object"))
	}
	return SliceBytes(o.B, sl.Off, Add(sl.Off, sl.Len))
}

// readInto: common helper of Read / ReadFull / binary.Read. need = number of bytes wanted.
// onFull(st) is applied when enough bytes are present (after the buffer advanced; data = the bytes),
// onShort(st, n) when only n < need are present (buffer drained).
func (e *Engine) readFork(s *State, f *Frame, bufID int, need *Term, onFull func(st *State, data *Bytes), onShort func(st *State, n *Term, data *Bytes)) []*State {
	o := s.heap[bufID]
	enough := Le(need, unreadLen(o), true)
	return e.forkBool(s, f, enough, func(st *State, yes bool) {
		b := st.heap[bufID]
		if yes {
			data := SliceBytes(b.B, b.R, Add(b.R, need))
			b.R = Add(b.R, need)
			onFull(st, data)
		} else {
			n := unreadLen(b)
			data := unread(b)
			b.R = b.B.Len
			onShort(st, n, data)
		}
	})
}

// readFork3: like readFork, but the short case is split into "nothing there" (io.EOF) and "some but not
// enough" (io.ErrUnexpectedEOF), as io.ReadFull and binary.Read distinguish them.
func (e *Engine) readFork3(s *State, f *Frame, bufID int, need *Term, onFull func(st *State, data *Bytes), onShort func(st *State, n *Term, data *Bytes, none bool)) []*State {
	o := s.heap[bufID]
	un := unreadLen(o)
	full := Le(need, un, true)
	none := And(Not(full), Eq(un, CI(0)))
	part := And(Not(full), Not(Eq(un, CI(0))))
	return e.forkN(s, []*Term{full, none, part}, func(st *State, i int) {
		b := st.heap[bufID]
		switch i {
		case 0:
			data := SliceBytes(b.B, b.R, Add(b.R, need))
			b.R = Add(b.R, need)
			onFull(st, data)
		case 1:
			onShort(st, CI(0), EmptyBytes(), true)
		case 2:
			n := unreadLen(b)
			data := unread(b)
			b.R = b.B.Len
			onShort(st, n, data, false)
		}
	})
}

func scalarBytes(t *Term, little bool) []*Term {
	if t.W == 0 { // bool
		return []*Term{Ite(t, C(8, 1), C(8, 0))}
	}
	n := t.W / 8
	bs := make([]*Term, n)
	for i := 0; i < n; i++ {
		b := Extract(8*i+7, 8*i, t)
		if little {
			bs[i] = b
		} else {
			bs[n-1-i] = b
		}
	}
	return bs
}
func scalarFromBytes(bs []*Term, little bool) *Term {
	n := len(bs)
	ord := make([]*Term, n)
	for i := 0; i < n; i++ {
		if little {
			ord[i] = bs[n-1-i]
		} else {
			ord[i] = bs[i]
		}
	}
	return Concat(ord...)
}

func isLittle(v Value) (bool, bool) {
	iv, ok := v.(*IfaceV)
	if !ok || iv.T == nil {
		return false, false
	}
	n := iv.T.String()
	switch {
	case strings.HasSuffix(n, "littleEndian"):
		return true, true
	case strings.HasSuffix(n, "bigEndian"):
		return false, true
	}
	return false, false
}

func (e *Engine) dispatch(s *State, f *Frame, fn *ssa.Function, args []Value, bind []Value, x *ssa.Call, site string) []*State {
	set := func(v Value) { setRes(s, x, v) }
	name := fn.String()
	if fn.Origin() != nil {
		// generic instance: use the origin's name for intrinsic matching
		if o := fn.Origin().String(); strings.HasPrefix(o, "sync/atomic.") || strings.HasPrefix(o, "(*sync/atomic.") || o == "slices.Grow" {
			name = o
		}
	}
	switch name {
	case "(*bytes.Buffer).Write":
		o, id := bufObj(s, args[0])
		if o == nil {
			s.panicd = "nil *bytes.Buffer at " + site
			return nil
		}
		e.access(s, id, true, site)
		o.Epoch++
		sl := args[1].(*SliceV)
		o.B = Concat2(o.B, sliceContent(s, sl))
		set(TupleV{sl.Len, nilErr})
	case "(*bytes.Buffer).WriteString":
		o, id := bufObj(s, args[0])
		if o == nil {
			s.panicd = "nil *bytes.Buffer at " + site
			return nil
		}
		e.access(s, id, true, site)
		o.Epoch++
		sv := args[1].(*StringV)
		o.B = Concat2(o.B, sv.B)
		set(TupleV{sv.B.Len, nilErr})
	case "(*bytes.Buffer).WriteByte":
		o, id := bufObj(s, args[0])
		if o == nil {
			s.panicd = "nil *bytes.Buffer at " + site
			return nil
		}
		e.access(s, id, true, site)
		o.Epoch++
		o.B = Concat2(o.B, VecBytes([]*Term{args[1].(*Term)}))
		set(nilErr)
	case "(*bytes.Buffer).WriteRune":
		o, id := bufObj(s, args[0])
		if o == nil {
			s.panicd = "nil *bytes.Buffer at " + site
			return nil
		}
		e.access(s, id, true, site)
		r := args[1].(*Term)
		if r.IsConst() {
			enc := utf8Rune(r)
			o.Epoch++
			o.B = Concat2(o.B, enc)
			set(TupleV{enc.Len, nilErr})
			return nil
		}
		return e.forkRune(s, r, site, func(st *State, b *Bytes) {
			ob := st.heap[id]
			ob.Epoch++
			ob.B = Concat2(ob.B, b)
			setRes(st, x, TupleV{b.Len, nilErr})
		})
	case "(*bytes.Buffer).Len":
		o, _ := bufObj(s, args[0])
		if o == nil {
			s.panicd = "nil *bytes.Buffer at " + site
			return nil
		}
		set(unreadLen(o))
	case "(*bytes.Buffer).Cap", "(*bytes.Buffer).Available":
		o, _ := bufObj(s, args[0])
		if o == nil {
			s.panicd = "nil *bytes.Buffer at " + site
			return nil
		}
		// Available = the spare capacity behind the content (one unknown per modification epoch);
		// Cap = unread bytes + the part of the already consumed bytes still in front of them in the backing
		// array (unknown, between 0 and the number of consumed bytes: grow slides them away) + spare
		if strings.HasSuffix(name, ".Available") {
			set(e.spareCap(s, o))
		} else {
			rp := CI(0)
			if !(o.R.IsConst() && o.R.Val == 0) {
				rp = e.boundedVar(s, "readpart", 0, 1<<40)
				s.pc = append(s.pc, Le(rp, o.R, true))
			}
			set(Add(Add(unreadLen(o), rp), e.spareCap(s, o)))
		}
	case "(*bytes.Buffer).AvailableBuffer":
		// b.buf[len(b.buf):]: an empty slice whose capacity is the spare capacity; what is written into it is
		// scratch until it is passed to Write (which copies it to where it already is)
		o, _ := bufObj(s, args[0])
		if o == nil {
			s.panicd = "nil *bytes.Buffer at " + site
			return nil
		}
		sp := e.spareCap(s, o)
		arr := ArrVar(e.freshName("avail"))
		sb := &Bytes{Len: sp}
		sb.At = func(i *Term) *Term { return Select(arr, i) }
		id := s.newObj(&Obj{Kind: kBytes, B: sb})
		_, bid := bufObj(s, args[0])
		s.aliasNote(id, bid) // it IS the buffer's memory: whatever keeps pointing into it shares memory with the buffer
		set(&SliceV{Obj: id, Off: CI(0), Len: CI(0), Cap: sp})
	case "(*bytes.Buffer).Bytes":
		o, id := bufObj(s, args[0])
		if o == nil {
			s.panicd = "nil *bytes.Buffer at " + site
			return nil
		}
		set(&SliceV{Obj: id, Off: o.R, Len: unreadLen(o), Cap: Add(unreadLen(o), e.spareCap(s, o)), View: id, Epoch: o.Epoch})
	case "(*bytes.Buffer).String":
		o, _ := bufObj(s, args[0])
		if o == nil {
			set(&StringV{B: ConstBytes("<nil>")})
			return nil
		}
		set(&StringV{B: unread(o)})
	case "(*bytes.Buffer).Reset":
		o, id := bufObj(s, args[0])
		e.access(s, id, true, site)
		o.Epoch++
		o.R = o.B.Len
	case "(*bytes.Buffer).Truncate":
		o, id := bufObj(s, args[0])
		n := args[1].(*Term)
		ok, forks := e.mustHold(s, And(Le(CI(0), n, true), Le(n, unreadLen(o), true)), "bytes.Buffer: truncation out of range at "+site)
		if !ok {
			return forks
		}
		e.access(s, id, true, site)
		o.B = SliceBytes(o.B, CI(0), Add(o.R, n))
		return forks
	case "(*bytes.Buffer).Grow":
		n := args[1].(*Term)
		ok, forks := e.mustHold(s, Le(CI(0), n, true), "bytes.Buffer.Grow: negative count at "+site)
		if !ok {
			return forks
		}
		s.allocs = append(s.allocs, AllocRec{Size: n, Site: site})
		if ob, _ := bufObj(s, args[0]); ob != nil {
			ob.Epoch++
			// afterwards at least n bytes can be written without another allocation
			s.pc = append(s.pc, Le(n, e.spareCap(s, ob), true))
		}
		return forks
	case "(*bytes.Buffer).Next":
		o, id := bufObj(s, args[0])
		n := args[1].(*Term)
		// b.buf[b.off : b.off+n] after clamping n to Len(): a negative n panics
		ok, forks := e.mustHold(s, Le(CI(0), n, true), "bytes.Buffer.Next: slice bounds out of range (negative count) at "+site)
		if !ok {
			return forks
		}
		o, id = bufObj(s, args[0])
		m := Ite(Lt(unreadLen(o), n, true), unreadLen(o), n)
		// b.buf[off:off+m]: the capacity reaches to the end of the backing array
		set(&SliceV{Obj: id, Off: o.R, Len: m, Cap: Add(unreadLen(o), e.spareCap(s, o)), View: id, Epoch: o.Epoch})
		o.R = Add(o.R, m)
		return forks
	case "(*bytes.Buffer).ReadByte":
		_, id := bufObj(s, args[0])
		return e.readFork(s, f, id, CI(1), func(st *State, data *Bytes) {
			setRes(st, x, TupleV{data.At(CI(0)), nilErr})
		}, func(st *State, n *Term, data *Bytes) {
			setRes(st, x, TupleV{C(8, 0), errEOF})
		})
	case "(*bytes.Buffer).ReadRune":
		o, id := bufObj(s, args[0])
		un := unreadLen(o)
		empty := Eq(un, CI(0))
		first := o.B.At(o.R)
		ascii := And(Not(empty), Lt(first, C(8, 0x80), false))
		multi := And(Not(empty), Not(Lt(first, C(8, 0x80), false)))
		return e.forkN(s, []*Term{empty, ascii, multi}, func(st *State, i int) {
			b := st.heap[id]
			switch i {
			case 0:
				setRes(st, x, TupleV{C(32, 0), CI(0), errEOF})
			case 1:
				setRes(st, x, TupleV{ZExt(b.B.At(b.R), 32), CI(1), nilErr})
				b.R = Add(b.R, CI(1))
			case 2:
				// a UTF-8 sequence of 1..4 bytes (1 = invalid encoding -> RuneError): size and rune are arbitrary here
				st.imprec = append(st.imprec, "Buffer.ReadRune of a non-ASCII byte havocked at "+site)
				n := e.boundedVar(st, "runesize", 1, 4)
				st.pc = append(st.pc, Le(n, unreadLen(b), true))
				setRes(st, x, TupleV{e.freshVar("rune", 32), n, nilErr})
				b.R = Add(b.R, n)
			}
		})
	case "(*bytes.Buffer).UnreadByte":
		panic(engineUnsupported("UnreadByte"))
	case "(*bytes.Buffer).Read":
		o, id := bufObj(s, args[0])
		dst := args[1].(*SliceV)
		un := unreadLen(o)
		full := Le(dst.Len, un, true)
		empty := And(Not(full), Eq(un, CI(0)))
		part := And(Not(full), Not(Eq(un, CI(0))))
		return e.forkN(s, []*Term{full, empty, part}, func(st *State, i int) {
			b := st.heap[id]
			switch i {
			case 0:
				data := SliceBytes(b.B, b.R, Add(b.R, dst.Len))
				b.R = Add(b.R, dst.Len)
				if dst.Obj != 0 {
					d := st.heap[dst.Obj]
					d.B = OverwriteBytes(d.B, dst.Off, data)
				}
				setRes(st, x, TupleV{dst.Len, nilErr})
			case 1:
				setRes(st, x, TupleV{CI(0), errEOF})
			case 2:
				n := unreadLen(b)
				data := unread(b)
				b.R = b.B.Len
				if dst.Obj != 0 {
					d := st.heap[dst.Obj]
					d.B = OverwriteBytes(d.B, dst.Off, data)
				}
				setRes(st, x, TupleV{n, nilErr})
			}
		})
	case "io.ReadFull":
		_, id := bufObj(s, args[0])
		if id == 0 {
			panic(engineUnsupported("io.ReadFull on a non-buffer reader"))
		}
		dst := args[1].(*SliceV)
		return e.readFork3(s, f, id, dst.Len, func(st *State, data *Bytes) {
			if dst.Obj != 0 {
				d := st.heap[dst.Obj]
				d.B = OverwriteBytes(d.B, dst.Off, data)
			}
			setRes(st, x, TupleV{dst.Len, nilErr})
		}, func(st *State, n *Term, data *Bytes, none bool) {
			if dst.Obj != 0 && !none {
				d := st.heap[dst.Obj]
				d.B = OverwriteBytes(d.B, dst.Off, data)
			}
			if none {
				setRes(st, x, TupleV{CI(0), errEOF})
			} else {
				setRes(st, x, TupleV{n, errUEOF})
			}
		})
	case "bytes.NewBuffer":
		sl := args[0].(*SliceV)
		id := s.newObj(&Obj{Kind: kBuffer, B: sliceContent(s, sl), R: CI(0)})
		if sl.Obj != 0 {
			s.heap[id].ET = nil
			s.aliasNote(id, sl.Obj)
		}
		set(&Ptr{Obj: id})
	case "bytes.NewBufferString":
		id := s.newObj(&Obj{Kind: kBuffer, B: args[0].(*StringV).B, R: CI(0)})
		set(&Ptr{Obj: id})
	case "bytes.NewReader":
		panic(engineUnsupported("bytes.Reader"))
	case "encoding/binary.Write":
		return e.binaryWrite(s, f, args, x, site)
	case "encoding/binary.Read":
		return e.binaryRead(s, f, args, x, site)
	case "bytes.Repeat":
		sl := args[0].(*SliceV)
		cnt := args[1].(*Term)
		ok, forks := e.mustHold(s, Le(CI(0), cnt, true), "bytes: negative Repeat count at "+site)
		if !ok {
			return forks
		}
		if !sl.Len.IsConst() || sl.Len.Val != 1 {
			panic(engineUnsupported("bytes.Repeat of a multi-byte pattern"))
		}
		p := s.heap[sl.Obj].B.At(sl.Off)
		s.allocs = append(s.allocs, AllocRec{Size: cnt, Site: site})
		id := s.newObj(&Obj{Kind: kBytes, B: RepeatByte(p, cnt)})
		set(&SliceV{Obj: id, Off: CI(0), Len: cnt, Cap: cnt})
		return forks
	case "bytes.TrimRight", "bytes.TrimLeft", "bytes.Trim", "bytes.TrimSpace", "strings.TrimRight", "strings.TrimLeft", "strings.Trim", "strings.TrimSpace",
		"bytes.TrimPrefix", "bytes.TrimSuffix", "strings.TrimPrefix", "strings.TrimSuffix", "bytes.TrimFunc", "bytes.TrimRightFunc", "bytes.TrimLeftFunc":
		e.trim(s, name, args, x, site)
	case "unicode/utf8.RuneCountInString", "unicode/utf8.RuneCount", "unicode/utf8.ValidString", "unicode/utf8.Valid":
		var d *Bytes
		if sv, ok := args[0].(*StringV); ok {
			d = sv.B
		} else {
			d = sliceContent(s, args[0].(*SliceV))
		}
		cnt, valid, ok := utf8Scan(d)
		if !ok {
			panic(engineUnsupported(name + " on a text longer than the modelled 160 bytes"))
		}
		if strings.Contains(name, "Valid") {
			set(valid)
		} else {
			set(cnt)
		}
	case "unicode/utf8.DecodeRuneInString", "unicode/utf8.DecodeRune":
		var d *Bytes
		if sv, ok := args[0].(*StringV); ok {
			d = sv.B
		} else {
			d = sliceContent(s, args[0].(*SliceV))
		}
		r, w := utf8First(d)
		set(TupleV{r, w})
	case "unicode/utf8.RuneLen":
		r := args[0].(*Term)
		sur := And(Le(C(32, 0xD800), r, true), Le(r, C(32, 0xDFFF), true))
		set(Ite(Lt(r, C(32, 0), true), CI(-1), Ite(Lt(r, C(32, 0x80), true), CI(1), Ite(Lt(r, C(32, 0x800), true), CI(2),
			Ite(sur, CI(-1), Ite(Lt(r, C(32, 0x10000), true), CI(3), Ite(Le(r, C(32, 0x10FFFF), true), CI(4), CI(-1))))))))
	case "hash/crc32.ChecksumIEEE", "hash/crc32.Checksum":
		// Checksum(data, tab): the table argument is taken to be the IEEE table (the only one this repository uses)
		sl := args[0].(*SliceV)
		set(e.crc32(s, sliceContent(s, sl)))
	case "hash/crc32.Update":
		// Update(crc, tab, p) == continue the IEEE CRC from crc over p
		crc := args[0].(*Term)
		sl := args[2].(*SliceV)
		d := sliceContent(s, sl).Norm()
		if d.Len.IsConst() && d.Len.Val == 0 {
			set(crc)
			break
		}
		if crc.IsConst() && crc.Val == 0 {
			set(e.crc32(s, d))
			break
		}
		if d.Vec != nil && crc.IsConst() && allConstTerms(d.Vec) {
			raw := make([]byte, len(d.Vec))
			for i, b := range d.Vec {
				raw[i] = byte(b.Val)
			}
			set(C(32, uint64(crc32.Update(uint32(crc.Val), crc32.IEEETable, raw))))
			break
		}
		if d.Vec != nil && len(d.Vec) <= e.crcExact {
			set(Bin("bvxor", crc32Steps(Bin("bvxor", crc, C(32, 0xFFFFFFFF)), d.Vec), C(32, 0xFFFFFFFF)))
			break
		}
		s.imprec = append(s.imprec, "hash/crc32.Update over symbolic data: result havocked")
		set(e.freshVar("crc32upd", 32))
	case "fmt.Errorf", "errors.New":
		s.allocs = append(s.allocs, AllocRec{Size: CI(64), Site: site})
		set(e.freshErr(name))
	case "errors.Is":
		a, b := args[0].(*IfaceV), args[1].(*IfaceV)
		eq := false
		if a.T != nil && b.T != nil {
			ta, ok1 := a.V.(*ErrTag)
			tb, ok2 := b.V.(*ErrTag)
			eq = ok1 && ok2 && ta.Msg == tb.Msg
		}
		set(B(eq))
	case "errors.Unwrap":
		set(nilErr)
	case "fmt.Sprintf", "fmt.Sprint", "fmt.Sprintln":
		arr := ArrVar(e.freshName("sprintf"))
		L := e.boundedVar(s, "sprintflen", 0, 4096)
		b := &Bytes{Len: L}
		b.At = func(i *Term) *Term { return Select(arr, i) }
		s.allocs = append(s.allocs, AllocRec{Size: L, Site: site})
		set(&StringV{B: b})
	case "fmt.Println", "fmt.Printf", "fmt.Print", "log.Printf", "log.Println", "log.Print":
		if x != nil {
			if tt, ok := x.Type().(*types.Tuple); ok && tt.Len() == 2 {
				set(TupleV{CI(0), nilErr})
			}
		}
	case "(*sync.RWMutex).Lock", "(*sync.Mutex).Lock":
		e.lockOp(s, args[0].(*Ptr), "Lock", site)
	case "(*sync.RWMutex).Unlock", "(*sync.Mutex).Unlock":
		e.lockOp(s, args[0].(*Ptr), "Unlock", site)
	case "(*sync.RWMutex).RLock":
		e.lockOp(s, args[0].(*Ptr), "RLock", site)
	case "(*sync.RWMutex).RUnlock":
		e.lockOp(s, args[0].(*Ptr), "RUnlock", site)
	case "(*sync.RWMutex).TryLock", "(*sync.Mutex).TryLock", "(*sync.RWMutex).TryRLock":
		// alone, a try-lock on a free mutex succeeds; with other goroutines around (C19 layer 3: the per-operation
		// exploration) it may also fail - the schedule query then demands a conflicting critical section of
		// another thread around that moment
		mp := args[0].(*Ptr)
		if mp.Obj == 0 {
			s.panicd = "nil mutex at " + site
			return nil
		}
		acq := "Lock"
		if strings.HasSuffix(name, "TryRLock") {
			acq = "RLock"
		}
		var forks []*State
		if e.havocLookup != nil {
			o := s.clone()
			o.trace = append(o.trace, TraceEv{Kind: "tryfail", Obj: mp.Obj, Key: mutexKey(mp), Res: acq == "Lock", Site: site})
			setRes(o, x, False)
			forks = append(forks, o)
		}
		held := 0
		if s.locks != nil {
			held = s.locks[mutexKey(mp)]
		}
		if held == -1 || (held > 0 && acq == "Lock") {
			set(False) // this goroutine holds it already: the attempt fails
			return forks
		}
		e.lockOp(s, mp, acq, site)
		set(True)
		return forks
	case "sync/atomic.LoadUint32", "sync/atomic.LoadInt32", "sync/atomic.LoadUint64", "sync/atomic.LoadInt64":
		set(e.load(s, args[0].(*Ptr), site))
	case "sync/atomic.StoreUint32", "sync/atomic.StoreInt32", "sync/atomic.StoreUint64", "sync/atomic.StoreInt64":
		e.store(s, args[0].(*Ptr), args[1], site)
	case "sync/atomic.AddUint32", "sync/atomic.AddInt32", "sync/atomic.AddUint64", "sync/atomic.AddInt64":
		p := args[0].(*Ptr)
		nv := Add(e.load(s, p, site).(*Term), args[1].(*Term))
		e.store(s, p, nv, site)
		set(nv)
	case "sync/atomic.CompareAndSwapInt32", "sync/atomic.CompareAndSwapUint32", "sync/atomic.CompareAndSwapInt64", "sync/atomic.CompareAndSwapUint64":
		p := args[0].(*Ptr)
		cur := e.load(s, p, site).(*Term)
		old, nw := args[1].(*Term), args[2].(*Term)
		return e.forkBool(s, f, Eq(cur, old), func(st *State, yes bool) {
			if yes {
				e.store(st, p, nw, site)
			}
			setRes(st, x, B(yes))
		})
	case "(*sync/atomic.Pointer[T]).Load", "(*sync/atomic.Pointer[T]).Store", "(*sync/atomic.Pointer[T]).Swap", "(*sync/atomic.Pointer[T]).CompareAndSwap":
		// atomic.Pointer[T]: a sequentially consistent cell holding a *T (its field v)
		p := args[0].(*Ptr)
		if p.Obj == 0 {
			s.panicd = "nil *atomic.Pointer at " + site
			return nil
		}
		st := fn.Signature.Recv().Type().Underlying().(*types.Pointer).Elem().Underlying().(*types.Struct)
		fi := -1
		for i := 0; i < st.NumFields(); i++ {
			if st.Field(i).Name() == "v" {
				fi = i
			}
		}
		if fi < 0 {
			panic(engineUnsupported("layout of atomic.Pointer"))
		}
		fp := &Ptr{Obj: p.Obj, Path: append(append([]PathElem{}, p.Path...), PathElem{Field: fi})}
		cur, _ := e.load(s, fp, site).(*Ptr)
		if cur == nil {
			cur = &Ptr{}
		}
		shared := p.Obj <= e.baseMax
		cellKey := fmt.Sprintf("cell%d%v", p.Obj, p.Path)
		// the name an entry carries: its first string field, when that is a constant
		entryName := func(st *State, ep *Ptr) string {
			if ep == nil || ep.Obj == 0 {
				return ""
			}
			if sv, ok := e.load(st, ep, site).(*StructV); ok {
				for _, fv := range sv.F {
					if str, ok := fv.(*StringV); ok {
						if b := str.B.Norm(); b.Vec != nil {
							raw := make([]byte, len(b.Vec))
							for i, t := range b.Vec {
								if !t.IsConst() {
									return "?"
								}
								raw[i] = byte(t.Val)
							}
							return string(raw)
						}
						return "?"
					}
				}
			}
			return "?"
		}
		switch {
		case strings.HasSuffix(name, ".Load") && shared && e.havocAtomic != nil:
			// C19 layer 3: the cell's content is whatever some thread stored last: nil, or an entry carrying one
			// of the candidate names (other fields zero: the value it stands for is tracked by the schedule)
			et, _ := fn.Signature.Results().At(0).Type().Underlying().(*types.Pointer)
			var est *types.Struct
			if et != nil {
				est, _ = et.Elem().Underlying().(*types.Struct)
			}
			if est == nil {
				panic(engineUnsupported("nondeterministic atomic.Pointer load of a non-struct entry"))
			}
			var forks []*State
			for _, nm := range e.havocAtomic {
				o := s.clone()
				ev := e.zero(et.Elem()).(*StructV)
				nf := append([]Value{}, ev.F...)
				for i := 0; i < est.NumFields(); i++ {
					if b, ok := est.Field(i).Type().Underlying().(*types.Basic); ok && b.Kind() == types.String {
						nf[i] = &StringV{B: ConstBytes(nm)}
						break
					}
				}
				id := o.newObj(&Obj{Kind: kCell, Val: &StructV{F: nf}})
				o.trace = append(o.trace, TraceEv{Kind: "aload", Obj: p.Obj, Key: cellKey, Res: true, Name: nm, Site: site})
				setRes(o, x, &Ptr{Obj: id})
				forks = append(forks, o)
			}
			s.trace = append(s.trace, TraceEv{Kind: "aload", Obj: p.Obj, Key: cellKey, Res: false, Site: site})
			set(&Ptr{})
			return forks
		case strings.HasSuffix(name, ".Load"):
			if shared {
				s.trace = append(s.trace, TraceEv{Kind: "aload", Obj: p.Obj, Key: cellKey, Res: cur.Obj != 0, Name: entryName(s, cur), Site: site})
			}
			set(cur)
		case strings.HasSuffix(name, ".Store"):
			if shared {
				np, _ := args[1].(*Ptr)
				s.trace = append(s.trace, TraceEv{Kind: "astore", Obj: p.Obj, Key: cellKey, Res: np != nil && np.Obj != 0, Name: entryName(s, np), Site: site})
			}
			e.store(s, fp, args[1], site)
		case strings.HasSuffix(name, ".Swap"):
			e.store(s, fp, args[1], site)
			set(cur)
		default:
			old := args[1].(*Ptr)
			same := cur.Obj == old.Obj && len(cur.Path) == len(old.Path)
			if same {
				for i := range cur.Path {
					if cur.Path[i] != old.Path[i] {
						same = false
					}
				}
			}
			if same {
				e.store(s, fp, args[2], site)
			}
			set(B(same))
		}
	case "fmt.Fprintf":
		// formats made of literal text and %s / %v verbs with optional '-' flag, width and precision (numbers or *)
		// on string operands: exact (width and precision count runes, as fmt does). Anything else: unsupported.
		ai := 0
		var dst *Obj
		var dstID int
		if name == "fmt.Fprintf" {
			dst, dstID = bufObj(s, args[0])
			if dst == nil {
				panic(engineUnsupported("fmt.Fprintf to a writer that is not a *bytes.Buffer"))
			}
			ai = 1
		}
		fstr, okf := args[ai].(*StringV)
		var fb []byte
		if okf {
			if nb := fstr.B.Norm(); nb.Vec != nil {
				for _, t := range nb.Vec {
					if !t.IsConst() {
						okf = false
						break
					}
					fb = append(fb, byte(t.Val))
				}
			} else {
				okf = false
			}
		}
		if !okf {
			panic(engineUnsupported("fmt formatting with a non-constant format at " + site))
		}
		var ops []Value
		if sl, ok := args[ai+1].(*SliceV); ok && sl.Obj != 0 {
			o := s.heap[sl.Obj]
			for i := int(sl.Off.Val); i < int(sl.Off.Val+sl.Len.Val); i++ {
				ops = append(ops, o.E[i])
			}
		}
		next := func() Value {
			if len(ops) == 0 {
				panic(engineUnsupported("fmt formatting: missing operand at " + site))
			}
			v := ops[0]
			ops = ops[1:]
			if iv, ok := v.(*IfaceV); ok {
				return iv.V
			}
			return v
		}
		intOp := func() int {
			t, ok := next().(*Term)
			if !ok || !t.IsConst() {
				panic(engineUnsupported("fmt formatting: symbolic width/precision at " + site))
			}
			return int(int64(t.Val))
		}
		out := EmptyBytes()
		var lit []*Term
		flush := func() {
			if len(lit) > 0 {
				out = Concat2(out, VecBytes(lit))
				lit = nil
			}
		}
		for i := 0; i < len(fb); i++ {
			if fb[i] != '%' {
				lit = append(lit, C(8, uint64(fb[i])))
				continue
			}
			i++
			if i < len(fb) && fb[i] == '%' {
				lit = append(lit, C(8, '%'))
				continue
			}
			left := false
			for i < len(fb) && fb[i] == '-' {
				left = true
				i++
			}
			width, prec := -1, -1
			num := func() int {
				if i < len(fb) && fb[i] == '*' {
					i++
					return intOp()
				}
				v, seen := 0, false
				for i < len(fb) && fb[i] >= '0' && fb[i] <= '9' {
					v = v*10 + int(fb[i]-'0')
					i++
					seen = true
				}
				if !seen {
					return -1
				}
				return v
			}
			width = num()
			if i < len(fb) && fb[i] == '.' {
				i++
				prec = num()
				if prec < 0 {
					prec = 0
				}
			}
			if i >= len(fb) || (fb[i] != 's' && fb[i] != 'v') {
				panic(engineUnsupported("fmt verb not modelled in " + string(fb) + " at " + site))
			}
			sv, ok := next().(*StringV)
			if !ok {
				panic(engineUnsupported("fmt %s/%v on a non-string operand at " + site))
			}
			flush()
			txt := sv.B
			if width < 0 && prec < 0 {
				out = Concat2(out, txt)
				continue
			}
			pcut := 1 << 30
			if prec >= 0 {
				pcut = prec
			}
			off, cnt, ok2 := utf8Cut(txt, pcut)
			if !ok2 {
				panic(engineUnsupported("fmt width/precision on a text longer than the UTF-8 model at " + site))
			}
			if prec >= 0 {
				txt = SliceBytes(txt, CI(0), off)
				cnt = Ite(Lt(CI(int64(prec)), cnt, true), CI(int64(prec)), cnt)
			}
			pad := EmptyBytes()
			if width > 0 {
				pn := Ite(Lt(cnt, CI(int64(width)), true), Sub(CI(int64(width)), cnt), CI(0))
				pad = RepeatByte(C(8, ' '), pn)
			}
			if left {
				out = Concat2(Concat2(out, txt), pad)
			} else {
				out = Concat2(Concat2(out, pad), txt)
			}
		}
		flush()
		if name == "fmt.Sprintf" {
			set(&StringV{B: out})
		} else {
			e.access(s, dstID, true, site)
			dst.Epoch++
			dst.B = Concat2(dst.B, out)
			set(TupleV{out.Len, nilErr})
		}
	case "slices.Grow":
		// slices.Grow(s, n): guarantees room for n more elements; when the spare capacity is short it allocates
		// len+n (or more) elements. Recorded as an allocation of that size; the returned slice keeps the modelled
		// capacity (later appends are modelled as reallocating: allocations over-approximated, contents exact).
		sl := args[0].(*SliceV)
		n := e.toInt(args[1].(*Term), fn.Signature.Params().At(1).Type())
		ok, forks := e.mustHold(s, Le(CI(0), n, true), "slices.Grow: negative count at "+site)
		if !ok {
			return forks
		}
		esz := sizeOf(fn.Signature.Params().At(0).Type().Underlying().(*types.Slice).Elem())
		var avail *Term
		if e.watchBuf != 0 {
			if wb := s.heap[e.watchBuf]; wb != nil {
				avail = Sub(wb.B.Len, wb.R)
			}
		}
		s.allocs = append(s.allocs, AllocRec{Size: MulC(Add(sl.Len, n), esz), Avail: avail, Site: site, Guard: Lt(Sub(sl.Cap, sl.Len), n, true)})
		set(sl)
		return forks
	case "(*sync.Pool).Get":
		// hidden shared state by definition: recorded as a write to the pool object; the object handed out is a
		// fresh one from New (reuse of an earlier object is not modelled: the path is flagged imprecise)
		pp := args[0].(*Ptr)
		if pp.Obj == 0 {
			s.panicd = "nil *sync.Pool at " + site
			return nil
		}
		e.access(s, pp.Obj, true, site)
		// Get hands back the most recently Put value when there is one (what the per-P private slot of the
		// real pool does between garbage collections), otherwise New(); that New() may also be called while
		// values are pooled is not explored
		if po := s.heap[pp.Obj]; len(po.Pool) > 0 {
			v := po.Pool[len(po.Pool)-1]
			po.Pool = append([]Value{}, po.Pool[:len(po.Pool)-1]...)
			s.notes = append(s.notes, "pool-reuse: sync.Pool.Get returns a value an earlier call put back at "+site)
			set(v)
			return nil
		}
		pool := e.load(s, pp, site).(*StructV)
		var newFn *FuncV
		for _, fld := range pool.F {
			if fv, ok := fld.(*FuncV); ok && fv.Fn != nil {
				newFn = fv
			}
		}
		if newFn == nil {
			set(&IfaceV{})
			return nil
		}
		e.pushCallBind(s, newFn.Fn, nil, newFn.Bind, x)
	case "(*sync.Pool).Put":
		pp := args[0].(*Ptr)
		if pp.Obj != 0 {
			e.access(s, pp.Obj, true, site)
			po := s.heap[pp.Obj]
			po.Pool = append(append([]Value{}, po.Pool...), args[1])
		}
	case "(*bytes.Buffer).WriteTo":
		// drains the unread bytes into w (a *bytes.Buffer here) and resets the source
		o, id := bufObj(s, args[0])
		if o == nil {
			s.panicd = "nil *bytes.Buffer at " + site
			return nil
		}
		iv, ok := args[1].(*IfaceV)
		var dst *Obj
		var did int
		if ok {
			if dp, ok2 := iv.V.(*Ptr); ok2 {
				dst, did = bufObj(s, dp)
			}
		}
		if dst == nil {
			panic(engineUnsupported("Buffer.WriteTo with a destination that is not a *bytes.Buffer"))
		}
		e.access(s, id, true, site)
		e.access(s, did, true, site)
		n := unreadLen(o)
		dst.B = Concat2(dst.B, unread(o))
		dst.Epoch++
		o.R = o.B.Len
		o.Epoch++
		set(TupleV{n, nilErr})
	case "unsafe.String":
		panic(engineUnsupported("unsafe.String as a function"))
	default:
		if strings.HasPrefix(name, "(*bytes.Buffer).") || strings.HasPrefix(name, "(*bytes.Reader).") || strings.HasPrefix(name, "(*strings.Builder).") {
			panic(engineUnsupported("no contract for " + name))
		}
		if fn.Blocks == nil {
			return e.unknownCallee(s, f, fn, args, x, site)
		}
		pk := ""
		if fn.Pkg != nil {
			pk = fn.Pkg.Pkg.Path()
		} else if fn.Origin() != nil && fn.Origin().Pkg != nil {
			pk = fn.Origin().Pkg.Pkg.Path()
		}
		if e.merge && e.mergePkg[pk] {
			return e.callMerged(s, f, fn, args, bind, x)
		}
		e.pushCallBind(s, fn, args, bind, x)
	}
	return nil
}

// forkN: the conditions are mutually exclusive and exhaustive; apply(st, i) runs on a state for each feasible one.
func (e *Engine) forkN(s *State, conds []*Term, apply func(st *State, i int)) []*State {
	var feas []int
	for i, c := range conds {
		if c != False && e.feasible(s, c) {
			feas = append(feas, i)
		}
	}
	if len(feas) == 0 {
		s.dead = true
		return nil
	}
	var forks []*State
	for k, i := range feas {
		if k == len(feas)-1 {
			s.pc = append(s.pc, conds[i])
			apply(s, i)
		} else {
			o := s.clone()
			o.pc = append(o.pc, conds[i])
			apply(o, i)
			forks = append(forks, o)
		}
	}
	return forks
}

func (s *State) aliasNote(a, b int) {
	// transitive: a also shares with everything b is known to share with
	var more []int
	for _, n := range s.notes {
		if strings.HasPrefix(n, "alias:") {
			var x, y int
			fmt.Sscanf(n, "alias:%d:%d", &x, &y)
			if x == b {
				more = append(more, y)
			} else if y == b {
				more = append(more, x)
			}
		}
	}
	s.notes = append(s.notes, fmt.Sprintf("alias:%d:%d", a, b))
	for _, m := range more {
		if m != a {
			s.notes = append(s.notes, fmt.Sprintf("alias:%d:%d", a, m))
		}
	}
}

func (e *Engine) unknownCallee(s *State, f *Frame, fn *ssa.Function, args []Value, x *ssa.Call, site string) []*State {
	// No body and no contract: results are arbitrary; flag the path imprecise.
	s.imprec = append(s.imprec, "unknown callee "+fn.String()+" havocked at "+site)
	res := fn.Signature.Results()
	hv := func(t types.Type) Value {
		if w, _, ok := width(t); ok {
			if w == 0 {
				return e.freshVar("havoc", 0)
			}
			return e.freshVar("havoc", w)
		}
		if types.Identical(t, types.Universe.Lookup("error").Type()) {
			return nilErr
		}
		panic(engineUnsupported("unknown callee " + fn.String() + " with result type " + t.String()))
	}
	switch res.Len() {
	case 0:
	case 1:
		setRes(s, x, hv(res.At(0).Type()))
	default:
		tv := TupleV{}
		for i := 0; i < res.Len(); i++ {
			tv = append(tv, hv(res.At(i).Type()))
		}
		setRes(s, x, tv)
	}
	return nil
}

func mutexKey(p *Ptr) string {
	var sb strings.Builder
	fmt.Fprintf(&sb, "%d", p.Obj)
	for _, pe := range p.Path {
		fmt.Fprintf(&sb, ".%d", pe.Field)
	}
	return sb.String()
}

func (e *Engine) lockOp(s *State, p *Ptr, op, site string) {
	if p.Obj == 0 {
		s.panicd = "nil mutex at " + site
		return
	}
	if s.locks == nil {
		s.locks = map[string]int{}
	}
	k := mutexKey(p)
	cur := s.locks[k]
	ok := true
	switch op {
	case "Lock":
		if cur != 0 {
			ok = false
			s.cut = "deadlock: Lock on a mutex this goroutine already holds at " + site
		} else {
			s.locks[k] = -1
		}
	case "RLock":
		if cur == -1 {
			ok = false
			s.cut = "deadlock: RLock while holding the write lock at " + site
		} else {
			s.locks[k] = cur + 1
		}
	case "Unlock":
		if cur != -1 {
			ok = false
			s.panicd = "fatal error: sync: Unlock of unlocked mutex at " + site
		} else {
			s.locks[k] = 0
		}
	case "RUnlock":
		if cur <= 0 {
			ok = false
			s.panicd = "fatal error: sync: RUnlock of unlocked RWMutex at " + site
		} else {
			s.locks[k] = cur - 1
		}
	}
	s.lockEvs = append(s.lockEvs, LockEv{Op: op, Key: k, Site: site, OK: ok})
	s.trace = append(s.trace, TraceEv{Kind: op, Obj: p.Obj, Key: k, Site: site})
}

// ---------------------------------------------------------------- encoding/binary

func (e *Engine) binaryWrite(s *State, f *Frame, args []Value, x *ssa.Call, site string) []*State {
	o, id := bufObj(s, args[0])
	if o == nil {
		panic(engineUnsupported("binary.Write on a non-buffer writer"))
	}
	little, okOrder := isLittle(args[1])
	if !okOrder {
		panic(engineUnsupported("binary.Write with unknown byte order"))
	}
	d := args[2].(*IfaceV)
	var bs []*Term
	add := func(v Value) bool {
		t, ok := v.(*Term)
		if !ok {
			return false
		}
		bs = append(bs, scalarBytes(t, little)...)
		return true
	}
	okData := false
	if d.T != nil {
		switch v := d.V.(type) {
		case *Term:
			okData = add(v)
		case *Ptr:
			if v.Obj != 0 {
				lv := e.load(s, v, site)
				switch y := lv.(type) {
				case *Term:
					okData = add(y)
				case *ArrayV:
					okData = true
					for _, el := range y.E {
						okData = okData && add(el)
					}
				}
			}
		case *SliceV:
			okData = true
			if v.Obj != 0 {
				so := s.heap[v.Obj]
				if so.Kind == kBytes {
					e.access(s, id, true, site)
					o.Epoch++
					o.B = Concat2(o.B, sliceContent(s, v))
					setRes(s, x, nilErr)
					return nil
				}
				if !v.Len.IsConst() || !v.Off.IsConst() {
					panic(engineUnsupported("binary.Write of a slice with symbolic length"))
				}
				for i := 0; i < int(v.Len.Val); i++ {
					okData = okData && add(so.E[int(v.Off.Val)+i])
				}
			}
		case *ArrayV:
			okData = true
			for _, el := range v.E {
				okData = okData && add(el)
			}
		}
	}
	if !okData {
		// binary.Write: "invalid type" error, nothing written
		setRes(s, x, e.freshErr("binary.Write: invalid type"))
		return nil
	}
	e.access(s, id, true, site)
	o.Epoch++
	o.B = Concat2(o.B, VecBytes(bs))
	setRes(s, x, nilErr)
	return nil
}

func (e *Engine) binaryRead(s *State, f *Frame, args []Value, x *ssa.Call, site string) []*State {
	_, id := bufObj(s, args[0])
	if id == 0 {
		panic(engineUnsupported("binary.Read on a non-buffer reader"))
	}
	little, okOrder := isLittle(args[1])
	if !okOrder {
		panic(engineUnsupported("binary.Read with unknown byte order"))
	}
	d := args[2].(*IfaceV)
	switch v := d.V.(type) {
	case *Ptr:
		if v.Obj == 0 {
			setRes(s, x, e.freshErr("binary.Read: invalid type"))
			return nil
		}
		cur := e.load(s, v, site)
		switch c := cur.(type) {
		case *Term:
			n := c.W / 8
			if c.W == 0 {
				n = 1
			}
			return e.readFork3(s, f, id, CI(int64(n)), func(st *State, data *Bytes) {
				bs := make([]*Term, n)
				for i := range bs {
					bs[i] = data.At(CI(int64(i)))
				}
				var val Value
				if c.W == 0 {
					val = Not(Eq(bs[0], C(8, 0)))
				} else {
					val = scalarFromBytes(bs, little)
				}
				e.store(st, v, val, site)
				setRes(st, x, nilErr)
			}, func(st *State, m *Term, data *Bytes, none bool) {
				if none {
					setRes(st, x, errEOF)
				} else {
					setRes(st, x, errUEOF)
				}
			})
		case *ArrayV:
			// array of scalars
			total := 0
			for _, el := range c.E {
				t, ok := el.(*Term)
				if !ok {
					panic(engineUnsupported("binary.Read into array of non-scalars"))
				}
				total += max(t.W/8, 1)
			}
			return e.readFork(s, f, id, CI(int64(total)), func(st *State, data *Bytes) {
				pos := 0
				out := &ArrayV{}
				for _, el := range c.E {
					t := el.(*Term)
					n := max(t.W/8, 1)
					bs := make([]*Term, n)
					for i := range bs {
						bs[i] = data.At(CI(int64(pos + i)))
					}
					pos += n
					out.E = append(out.E, scalarFromBytes(bs, little))
				}
				e.store(st, v, out, site)
				setRes(st, x, nilErr)
			}, func(st *State, m *Term, data *Bytes) {
				setRes(st, x, errUEOF)
			})
		}
	case *SliceV:
		if v.Obj == 0 || (v.Len.IsConst() && v.Len.Val == 0) {
			setRes(s, x, nilErr)
			return nil
		}
		so := s.heap[v.Obj]
		if so.Kind == kBytes {
			return e.readFork(s, f, id, v.Len, func(st *State, data *Bytes) {
				dd := st.heap[v.Obj]
				dd.B = OverwriteBytes(dd.B, v.Off, data)
				setRes(st, x, nilErr)
			}, func(st *State, m *Term, data *Bytes) {
				setRes(st, x, errUEOF)
			})
		}
		if !v.Len.IsConst() || !v.Off.IsConst() {
			panic(engineUnsupported("binary.Read into a slice with symbolic length"))
		}
		cnt := int(v.Len.Val)
		ew := 0
		if cnt > 0 {
			t, ok := so.E[int(v.Off.Val)].(*Term)
			if !ok {
				panic(engineUnsupported("binary.Read into slice of non-scalars"))
			}
			ew = max(t.W/8, 1)
		}
		return e.readFork(s, f, id, CI(int64(cnt*ew)), func(st *State, data *Bytes) {
			dd := st.heap[v.Obj]
			dd.ownE()
			for k := 0; k < cnt; k++ {
				bs := make([]*Term, ew)
				for i := range bs {
					bs[i] = data.At(CI(int64(k*ew + i)))
				}
				dd.E[int(v.Off.Val)+k] = scalarFromBytes(bs, little)
			}
			setRes(st, x, nilErr)
		}, func(st *State, m *Term, data *Bytes) {
			setRes(st, x, errUEOF)
		})
	}
	setRes(s, x, e.freshErr("binary.Read: invalid type"))
	return nil
}

// ---------------------------------------------------------------- trimming

func asciiSpace(b *Term) *Term {
	return Or(Eq(b, C(8, ' ')), Eq(b, C(8, '\t')), Eq(b, C(8, '\n')), Eq(b, C(8, '\v')), Eq(b, C(8, '\f')), Eq(b, C(8, '\r')))
}

func (e *Engine) trim(s *State, name string, args []Value, x *ssa.Call, site string) {
	isStr := strings.HasPrefix(name, "strings.")
	var src *Bytes
	var sl *SliceV
	if isStr {
		src = args[0].(*StringV).B
	} else {
		sl = args[0].(*SliceV)
		src = sliceContent(s, sl)
	}
	result := func(lo, hi *Term) { // sub-range [lo,hi) of src
		if isStr {
			setRes(s, x, &StringV{B: SliceBytes(src, lo, hi)})
			return
		}
		if sl.Obj == 0 {
			setRes(s, x, sl)
			return
		}
		setRes(s, x, &SliceV{Obj: sl.Obj, Off: Add(sl.Off, lo), Len: Sub(hi, lo), Cap: Sub(sl.Cap, lo)})
	}
	kind := name[strings.Index(name, ".")+1:]
	var inSet func(b *Term) *Term
	exact := true
	switch kind {
	case "TrimSpace":
		inSet = asciiSpace
		s.imprec = append(s.imprec, "TrimSpace modelled for ASCII white space only at "+site)
	case "TrimRight", "TrimLeft", "Trim":
		cut := args[1].(*StringV).B.Norm()
		if cut.Vec == nil {
			exact = false
			break
		}
		for _, c := range cut.Vec {
			// every cutset byte must be provably ASCII
			if e.checkSat(s, Not(Lt(c, C(8, 0x80), false))) != "unsat" {
				exact = false
			}
		}
		vec := cut.Vec
		inSet = func(b *Term) *Term {
			var cs []*Term
			for _, c := range vec {
				cs = append(cs, Eq(b, c))
			}
			return Or(cs...)
		}
	default:
		exact = false
	}
	srcN := src.Norm()
	n, concrete := srcN.ConstLen()
	if !exact || !concrete || srcN.Vec == nil {
		// arbitrary sub-slice
		s.imprec = append(s.imprec, name+" havocked at "+site)
		_, hi, ok := boundsOf(src.Len)
		if !ok {
			hi = 1 << 40
		}
		a := e.boundedVar(s, "trimlo", 0, hi)
		b := e.boundedVar(s, "trimhi", 0, hi)
		s.pc = append(s.pc, Le(a, b, true), Le(b, src.Len, true))
		result(a, b)
		return
	}
	lo, hi := CI(0), CI(int64(n))
	if kind == "TrimRight" || kind == "Trim" || kind == "TrimSpace" {
		L := CI(0)
		for j := 0; j < n; j++ {
			L = Ite(inSet(srcN.Vec[j]), L, CI(int64(j+1)))
		}
		if !L.IsConst() {
			lv := e.boundedVar(s, "trimlen", 0, int64(n))
			s.pc = append(s.pc, Eq(lv, L))
			for j := 0; j < n; j++ { // derived facts
				s.pc = append(s.pc, Implies(Le(lv, CI(int64(j)), true), inSet(srcN.Vec[j])))
			}
			L = lv
		}
		hi = L
	}
	if kind == "TrimLeft" || kind == "Trim" || kind == "TrimSpace" {
		K := CI(int64(n))
		for j := n - 1; j >= 0; j-- {
			K = Ite(inSet(srcN.Vec[j]), K, CI(int64(j)))
		}
		if !K.IsConst() {
			kv := e.boundedVar(s, "trimlead", 0, int64(n))
			s.pc = append(s.pc, Eq(kv, K))
			K = kv
		}
		if kind != "TrimLeft" {
			// all-in-set input: TrimRight already emptied it; clamp
			K = Ite(Lt(hi, K, true), hi, K)
		}
		lo = K
	}
	result(lo, hi)
}

// ---------------------------------------------------------------- CRC-32 (IEEE), reference model of hash/crc32

type crcCall struct {
	Data *Bytes
	Res  *Term
}

var crcLog []crcCall

func allConstTerms(v []*Term) bool {
	for _, b := range v {
		if !b.IsConst() {
			return false
		}
	}
	return true
}

func crc32Model(data []*Term) *Term {
	if allConstTerms(data) {
		raw := make([]byte, len(data))
		for i, b := range data {
			raw[i] = byte(b.Val)
		}
		return C(32, uint64(crc32.ChecksumIEEE(raw)))
	}
	return Bin("bvxor", crc32Steps(C(32, 0xFFFFFFFF), data), C(32, 0xFFFFFFFF))
}

func crc32Steps(crc *Term, data []*Term) *Term {
	for _, b := range data {
		crc = Bin("bvxor", crc, ZExt(b, 32))
		for i := 0; i < 8; i++ {
			lsb := Eq(Extract(0, 0, crc), C(1, 1))
			sh := Bin("bvlshr", crc, C(32, 1))
			crc = Ite(lsb, Bin("bvxor", sh, C(32, 0xEDB88320)), sh)
		}
	}
	return crc
}

func (e *Engine) crc32(s *State, data *Bytes) *Term {
	d := data.Norm()
	if d.Vec != nil {
		allConst := true
		for _, b := range d.Vec {
			if !b.IsConst() {
				allConst = false
			}
		}
		if allConst || len(d.Vec) <= e.crcExact {
			return crc32Model(d.Vec)
		}
	}
	if r := e.crcLookup(s, d); r != nil {
		return r
	}
	r := e.freshVar("crc32", 32)
	crcLog = append(crcLog, crcCall{Data: data, Res: r})
	return r
}

// crcLookup: CRC-32 is a function of its argument: reuse the result of an earlier call on a provably equal sequence.
func (e *Engine) crcLookup(s *State, d *Bytes) *Term {
	for i := len(crcLog) - 1; i >= 0; i-- {
		en := crcLog[i]
		ed := en.Data.Norm()
		if ed.Vec != nil && d.Vec != nil {
			if len(ed.Vec) != len(d.Vec) {
				continue
			}
			same := true
			for j := range d.Vec {
				if d.Vec[j] != ed.Vec[j] {
					same = false
					break
				}
			}
			if same {
				return en.Res
			}
			continue
		}
		if Eq(ed.Len, d.Len) == False {
			continue
		}
		eq := textEq(ed, d, 2048)
		if eq == True {
			return en.Res
		}
		if eq != False && e.checkSat(s, Not(eq)) == "unsat" {
			return en.Res
		}
	}
	return nil
}

// ---------------------------------------------------------------- merge at return

func (e *Engine) callMerged(s *State, f *Frame, fn *ssa.Function, args []Value, bind []Value, x *ssa.Call) []*State {
	// The callee runs on s itself with the caller's frames set aside (cloning the whole state per call is
	// quadratic in loops over long lists); the caller's frames are re-attached to every resulting state.
	saved := s.frames
	savedCutNext, savedCutDone := s.cutNext, s.cutDone
	s.frames, s.cutNext, s.cutDone = nil, nil, false
	e.pushCallBind(s, fn, args, bind, nil)
	base := len(s.pc)
	basePC := append([]*Term{}, s.pc...)
	nAlloc := len(s.allocs)
	e.lazy++
	finals := e.Run(s)
	e.lazy--
	e.Paths -= len(finals)
	if len(finals) == 0 {
		s.frames, s.cutNext, s.cutDone = saved, savedCutNext, savedCutDone
		s.dead = true
		return nil
	}
	groups := e.mergeFinals(basePC[:base], nAlloc, finals)
	// snapshot the results first: s may itself be one of them
	snaps := make([]State, len(groups))
	for i, g := range groups {
		snaps[i] = *g
	}
	attach := func(dst *State, fin *State, frames []*Frame) {
		dst.heap, dst.pc, dst.steps, dst.allocs = fin.heap, fin.pc, fin.steps, fin.allocs
		dst.acc, dst.locks, dst.lockEvs, dst.imprec, dst.notes, dst.trace = fin.acc, fin.locks, fin.lockEvs, fin.imprec, fin.notes, fin.trace
		dst.ret, dst.dead, dst.cutDone, dst.cutNext = nil, false, savedCutDone, savedCutNext
		dst.panicd, dst.cut = fin.panicd, fin.cut
		dst.frames = frames
		setRes(dst, x, fin.ret)
	}
	var forks []*State
	for i := 1; i < len(groups); i++ {
		o := &State{}
		attach(o, &snaps[i], cloneFrames(saved))
		forks = append(forks, o)
	}
	attach(s, &snaps[0], saved)
	return forks
}

func cloneFrames(fs []*Frame) []*Frame {
	var out []*Frame
	for _, f := range fs {
		c := *f
		c.locals = make(map[ssa.Value]Value, len(f.locals))
		for k, v := range f.locals {
			c.locals[k] = v
		}
		c.visits = map[int]int{}
		for k, v := range f.visits {
			c.visits[k] = v
		}
		c.defers = append([]deferred{}, f.defers...)
		out = append(out, &c)
	}
	return out
}

// mergeFinals merges the final states of a sub-exploration that agree on pointers and object identities:
// scalar leaves become ite terms, byte sequences merge pointwise, the path condition becomes base AND (c1 OR c2 ...).
func (e *Engine) mergeFinals(basePC []*Term, nAlloc int, finals []*State) []*State {
	base := len(basePC)
	if len(finals) == 1 {
		return finals
	}
	type group struct {
		st    *State
		conds []*Term
	}
	var groups []*group
	for _, fin := range finals {
		if !e.deadline.IsZero() && time.Now().After(e.deadline) {
			// out of time: do not merge further (the caller sees the remaining states as cut)
			fin.cut = "item time budget exceeded"
		}
		if memExceeded.Load() && fin.cut == "" {
			fin.cut = "memory budget exceeded"
		}
		c := And(fin.pc[base:]...)
		merged := false
		if fin.panicd == "" && fin.cut == "" {
			for _, g := range groups {
				if g.st.panicd != "" || g.st.cut != "" {
					continue
				}
				if m, ok := mergeStates(c, fin, g.st, nAlloc, Or(g.conds...)); ok {
					g.st = m
					g.conds = append(g.conds, c)
					merged = true
					e.Merges++
					break
				}
			}
		}
		if !merged {
			groups = append(groups, &group{st: fin, conds: []*Term{c}})
		}
	}
	var out []*State
	for _, g := range groups {
		if len(g.conds) > 1 {
			g.st.pc = append(append([]*Term{}, basePC...), Or(g.conds...))
		}
		out = append(out, g.st)
	}
	return out
}

// RunMerged runs fn to completion from s and merges its final states where possible.
func (e *Engine) RunMerged(s *State, fn *ssa.Function, args []Value) []*State {
	basePC := append([]*Term{}, s.pc...)
	nAlloc := len(s.allocs)
	s.frames = nil
	e.pushCall(s, fn, args, nil)
	e.lazy++
	finals := e.Run(s)
	e.lazy--
	if len(finals) <= 1 {
		return finals
	}
	e.Paths -= len(finals)
	out := e.mergeFinals(basePC, nAlloc, finals)
	e.Paths += len(out)
	return out
}

func mergeValue(c *Term, a, b Value) (Value, bool) {
	switch av := a.(type) {
	case nil:
		return nil, b == nil
	case *Term:
		bv, ok := b.(*Term)
		if !ok || av.W != bv.W {
			return nil, false
		}
		return Ite(c, av, bv), true
	case *Ptr:
		bv, ok := b.(*Ptr)
		if !ok || av.Obj != bv.Obj || !pathEq(av.Path, bv.Path) {
			return nil, false
		}
		return av, true
	case *SliceV:
		bv, ok := b.(*SliceV)
		if !ok || av.Obj != bv.Obj {
			return nil, false
		}
		if av.View != bv.View || av.Epoch != bv.Epoch {
			return nil, false
		}
		return &SliceV{Obj: av.Obj, Off: Ite(c, av.Off, bv.Off), Len: Ite(c, av.Len, bv.Len), Cap: Ite(c, av.Cap, bv.Cap), View: av.View, Epoch: av.Epoch}, true
	case *StringV:
		bv, ok := b.(*StringV)
		if !ok || av.Alias != bv.Alias {
			return nil, false
		}
		return &StringV{B: MergeBytes(c, av.B, bv.B), Alias: av.Alias}, true
	case *IfaceV:
		bv, ok := b.(*IfaceV)
		if !ok || (av.T == nil) != (bv.T == nil) {
			return nil, false
		}
		if av.T == nil {
			return av, true
		}
		if !types.Identical(av.T, bv.T) {
			return nil, false
		}
		if ta, isErr := av.V.(*ErrTag); isErr {
			tb, ok := bv.V.(*ErrTag)
			if !ok {
				return nil, false
			}
			if ta.Msg == tb.Msg || (strings.HasPrefix(ta.Msg, "fresh:") && strings.HasPrefix(tb.Msg, "fresh:")) {
				return av, true
			}
			return nil, false
		}
		v, ok := mergeValue(c, av.V, bv.V)
		return &IfaceV{T: av.T, V: v}, ok
	case *StructV:
		bv, ok := b.(*StructV)
		if !ok || len(av.F) != len(bv.F) {
			return nil, false
		}
		if av == bv {
			return av, true
		}
		r := &StructV{F: make([]Value, len(av.F))}
		for i := range av.F {
			if r.F[i], ok = mergeValue(c, av.F[i], bv.F[i]); !ok {
				return nil, false
			}
		}
		return r, true
	case *ArrayV:
		bv, ok := b.(*ArrayV)
		if !ok || len(av.E) != len(bv.E) {
			return nil, false
		}
		r := &ArrayV{E: make([]Value, len(av.E))}
		for i := range av.E {
			if r.E[i], ok = mergeValue(c, av.E[i], bv.E[i]); !ok {
				return nil, false
			}
		}
		return r, true
	case TupleV:
		bv, ok := b.(TupleV)
		if !ok || len(av) != len(bv) {
			return nil, false
		}
		r := make(TupleV, len(av))
		for i := range av {
			if r[i], ok = mergeValue(c, av[i], bv[i]); !ok {
				return nil, false
			}
		}
		return r, true
	case *FuncV:
		bv, ok := b.(*FuncV)
		return av, ok && av.Fn == bv.Fn && len(av.Bind) == 0 && len(bv.Bind) == 0
	case *ssa.Builtin:
		return av, a == b
	case *rangeIter:
		bv, ok := b.(*rangeIter)
		return av, ok && *av == *bv
	}
	return nil, false
}

// mergeStates: result state equals a when c holds, b otherwise (cb = condition of b, for allocation guards).
// nAlloc = number of allocation records that existed before the call (shared prefix).
func mergeStates(c *Term, a, b *State, nAlloc int, cb *Term) (*State, bool) {
	rv, ok := mergeValue(c, a.ret, b.ret)
	if !ok {
		return nil, false
	}
	if len(a.locks) != len(b.locks) {
		return nil, false
	}
	for k, v := range a.locks {
		if b.locks[k] != v {
			return nil, false
		}
	}
	if len(a.trace) != len(b.trace) {
		return nil, false
	}
	for i := range a.trace {
		if a.trace[i] != b.trace[i] {
			return nil, false
		}
	}
	r := &State{heap: make(map[int]*Obj, len(a.heap)), steps: max(a.steps, b.steps), ret: rv, locks: a.locks, trace: a.trace}
	for id, oa := range a.heap {
		ob, both := b.heap[id]
		if !both {
			r.heap[id] = oa
			continue
		}
		if oa == ob {
			r.heap[id] = oa
			continue
		}
		if oa.Kind != ob.Kind {
			return nil, false
		}
		n := &Obj{Kind: oa.Kind, ET: oa.ET}
		switch oa.Kind {
		case kCell:
			if n.Val, ok = mergeValue(c, oa.Val, ob.Val); !ok {
				return nil, false
			}
		case kBytes:
			n.B = MergeBytes(c, oa.B, ob.B)
		case kBuffer:
			n.B = MergeBytes(c, oa.B, ob.B)
			n.R = Ite(c, oa.R, ob.R)
			n.Epoch = max(oa.Epoch, ob.Epoch)
		case kElems:
			if len(oa.E) != len(ob.E) {
				return nil, false
			}
			n.E = make([]Value, len(oa.E))
			for i := range oa.E {
				if n.E[i], ok = mergeValue(c, oa.E[i], ob.E[i]); !ok {
					return nil, false
				}
			}
		case kMap:
			if len(oa.M) != len(ob.M) {
				return nil, false
			}
			for i := range oa.M {
				if oa.M[i].K != ob.M[i].K {
					if keyEqTerm(oa.M[i].K, ob.M[i].K) != True {
						return nil, false
					}
				}
			}
			n.M = make([]MapEntry, len(oa.M))
			for i := range oa.M {
				v, ok := mergeValue(c, oa.M[i].V, ob.M[i].V)
				if !ok {
					return nil, false
				}
				n.M[i] = MapEntry{oa.M[i].K, v}
			}
		}
		r.heap[id] = n
	}
	for id, ob := range b.heap {
		if _, ok := a.heap[id]; !ok {
			r.heap[id] = ob
		}
	}
	// ghost records: shared prefix once, then both suffixes with guards
	r.allocs = append(r.allocs, a.allocs[:min(nAlloc, len(a.allocs))]...)
	guard := func(g, c *Term) *Term {
		if g == nil {
			return c
		}
		return And(g, c)
	}
	sameShape := len(a.allocs) == len(b.allocs) && len(a.allocs) >= nAlloc
	if sameShape {
		for i := nAlloc; i < len(a.allocs); i++ {
			if a.allocs[i].Site != b.allocs[i].Site || (a.allocs[i].Avail == nil) != (b.allocs[i].Avail == nil) {
				sameShape = false
				break
			}
		}
	}
	if sameShape {
		// the two branches allocate at the same sites in the same order: one record per site with merged size
		tg := func(g *Term) *Term {
			if g == nil {
				return True
			}
			return g
		}
		for i := nAlloc; i < len(a.allocs); i++ {
			ra, rb := a.allocs[i], b.allocs[i]
			m := AllocRec{Site: ra.Site, Size: Ite(c, ra.Size, rb.Size)}
			if ra.Avail != nil {
				m.Avail = Ite(c, ra.Avail, rb.Avail)
			}
			if ra.Guard != nil || rb.Guard != nil {
				m.Guard = Ite(c, tg(ra.Guard), tg(rb.Guard))
			}
			r.allocs = append(r.allocs, m)
		}
	} else if len(a.allocs) > nAlloc {
		for _, ar := range a.allocs[nAlloc:] {
			ar.Guard = guard(ar.Guard, c)
			r.allocs = append(r.allocs, ar)
		}
	}
	if !sameShape && len(b.allocs) > nAlloc {
		for _, ar := range b.allocs[nAlloc:] {
			if ar.Guard == nil {
				ar.Guard = cb
			}
			r.allocs = append(r.allocs, ar)
		}
	}
	r.acc = unionAcc(a.acc, b.acc)
	r.lockEvs = a.lockEvs
	if len(b.lockEvs) > len(a.lockEvs) {
		r.lockEvs = b.lockEvs
	}
	r.imprec = unionStr(a.imprec, b.imprec)
	r.notes = unionStr(a.notes, b.notes)
	return r, true
}

func unionStr(a, b []string) []string {
	seen := map[string]bool{}
	var out []string
	for _, x := range append(append([]string{}, a...), b...) {
		if !seen[x] {
			seen[x] = true
			out = append(out, x)
		}
	}
	return out
}
func unionAcc(a, b []Access) []Access {
	seen := map[Access]bool{}
	var out []Access
	for _, x := range append(append([]Access{}, a...), b...) {
		if !seen[x] {
			seen[x] = true
			out = append(out, x)
		}
	}
	return out
}
