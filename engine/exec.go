package main

// Path-wise symbolic executor for go/ssa.

import (
	"fmt"
	"go/constant"
	"go/token"
	"go/types"
	"sort"
	"strings"
	"time"

	"golang.org/x/tools/go/ssa"
)

type Value interface{}
type PathElem struct {
	Field int
	Idx   *Term // nil => field step
}
type Ptr struct {
	Obj  int
	Path []PathElem
	// View/Epoch: the pointer was derived from a bytes.Buffer view (Bytes/Next) taken at that modification epoch
	View, Epoch int
}
type StructV struct{ F []Value }
type ArrayV struct{ E []Value }
type SliceV struct {
	Obj           int // 0 = nil
	Off, Len, Cap *Term
	View, Epoch   int // see Ptr
}
type StringV struct {
	B     *Bytes
	Alias int // object id whose memory this string shares (unsafe.String), 0 = none
}
type IfaceV struct {
	T types.Type // nil => nil interface
	V Value
}
type FuncV struct {
	Fn   *ssa.Function
	Bind []Value
}
type TupleV []Value
type ErrTag struct{ Msg string }

const (
	kCell = iota
	kBytes
	kBuffer
	kElems
	kMap
)

type MapEntry struct{ K, V Value }

type Obj struct {
	Kind    int
	Val     Value   // kCell
	B       *Bytes  // kBytes: backing bytes; kBuffer: all bytes ever written
	R       *Term   // kBuffer: read offset
	E       []Value // kElems
	M       []MapEntry
	ET      types.Type // element type (kElems/kBytes), may be nil
	Epoch   int        // kBuffer: number of modifications so far (views taken earlier are stale)
	Spare   *Term      // kBuffer: spare capacity behind the content (symbolic, >= 0), valid for SpareEp
	SpareEp int
	eShared bool    // E is shared with another state's copy of this object: ownE() before writing an element
	Pool    []Value // sync.Pool: the values Put back so far (most recent last); never mutated in place
}

type Frame struct {
	pm     *phiMerge
	defers []deferred
	fn     *ssa.Function
	blk    *ssa.BasicBlock
	prev   *ssa.BasicBlock
	ip     int
	locals map[ssa.Value]Value
	call   ssa.Value
	visits map[int]int // block index -> arrivals (unwinding)
	cutVis int
	runDef bool // executing deferred calls before return
	retVal Value
	hasRet bool
}
type deferred struct {
	fn   Value // *FuncV or *ssa.Function wrapped
	args []Value
	cc   *ssa.CallCommon
}
type phiMerge struct {
	c            *Term
	thenB, elseB *ssa.BasicBlock
}

type AllocRec struct {
	Guard *Term // condition (relative to the path condition) under which the allocation happened; nil = always
	Size  *Term // bytes requested
	Avail *Term // unread bytes in the watched buffer at that moment (nil if no watched buffer)
	Site  string
}
type Access struct {
	Obj   int
	Write bool
	Lock  int // lock mode held at that moment on any mutex: 0 none, >0 readers, -1 writer
	Site  string
}

// TraceEv: ordered visible events (mutex operations, accesses to pre-existing maps) of a path.
type TraceEv struct {
	Kind string // Lock RLock Unlock RUnlock lookup update delete replace
	Obj  int
	Key  string
	Res  bool // lookup: found
	Val  int  // update: object id of the stored value
	Site string
	Name string // aload/astore: the name carried by the entry (first string field of the pointed-to struct), "" for nil
}

type LockEv struct {
	Op   string
	Key  string
	Site string
	OK   bool
}

type State struct {
	frames  []*Frame
	heap    map[int]*Obj
	pc      []*Term
	ret     Value
	panicd  string
	cut     string // non-empty: path abandoned (unwinding bound, unsupported construct)
	steps   int
	allocs  []AllocRec
	acc     []Access
	locks   map[string]int
	lockEvs []LockEv
	imprec  []string
	cutNext map[ssa.Value]Value
	cutDone bool
	dead    bool
	notes   []string
	trace   []TraceEv
}

// ownE: make the element array private before an in-place write.
func (o *Obj) ownE() {
	if o.eShared {
		o.E = append([]Value{}, o.E...)
		o.eShared = false
	}
}

func (s *State) clone() *State {
	n := &State{heap: make(map[int]*Obj, len(s.heap)), pc: append([]*Term{}, s.pc...), steps: s.steps,
		allocs: append([]AllocRec{}, s.allocs...), acc: append([]Access{}, s.acc...), lockEvs: append([]LockEv{}, s.lockEvs...),
		imprec: append([]string{}, s.imprec...), ret: s.ret, panicd: s.panicd, cut: s.cut, notes: append([]string{}, s.notes...), trace: append([]TraceEv{}, s.trace...)}
	if s.locks != nil {
		n.locks = map[string]int{}
		for k, v := range s.locks {
			n.locks[k] = v
		}
	}
	for k, o := range s.heap {
		c := *o
		if o.E != nil {
			// copy on write: element arrays are shared between a state and its clones until one of them writes
			// (long lists are cloned at every merged call); the capacity is clipped so that an append reallocates
			o.E = o.E[:len(o.E):len(o.E)]
			o.eShared = true
			c.E = o.E
			c.eShared = true
		}
		if o.M != nil {
			c.M = append([]MapEntry{}, o.M...)
		}
		n.heap[k] = &c
	}
	for _, f := range s.frames {
		c := *f
		c.locals = make(map[ssa.Value]Value, len(f.locals))
		for k, v := range f.locals {
			c.locals[k] = v
		}
		c.visits = map[int]int{}
		for k, v := range f.visits {
			c.visits[k] = v
		}
		c.defers = append([]deferred{}, f.defers...)
		n.frames = append(n.frames, &c)
	}
	return n
}

// object ids come from one global counter so that independently explored branches never share an id
var objCounter int

func (s *State) newObj(o *Obj) int {
	objCounter++
	s.heap[objCounter] = o
	return objCounter
}

type Engine struct {
	prog         *ssa.Program
	solver       *Solver
	globals      map[*ssa.Global]int
	fresh        int
	Paths        int
	Merges       int
	Forks        int
	Steps        int
	merge        bool
	unroll       int
	cutFn        *ssa.Function
	cutHdr       *ssa.BasicBlock
	cutInit      func(s *State, f *Frame)
	trace        bool
	baseMax      int // objects with id <= baseMax existed after package initialisation (global-reachable)
	watchBuf     int // buffer object whose unread size is recorded at each allocation
	funcs        map[string]int
	noFeas       bool
	lazyGlob     *State
	mergePkg     map[string]bool
	lazyObjs     []lazyObj
	maxPaths     int
	crcExact     int
	noSlice      bool
	deadline     time.Time
	abortMsg     string       // set when an exploration is pointless to continue (see symLoopLimit): every remaining path is cut with it
	symLoopLimit int          // >0: a loop whose condition is symbolic and not byte-local is cut after this many iterations (message-level items fall back to concrete text lengths)
	havocLookup  map[int]bool // map objects whose lookups answer nondeterministically (C19 layer 3)
	havocAtomic  []string     // non-nil: atomic.Pointer loads of shared cells answer nondeterministically (nil, or an entry carrying one of these names)
	lazy         int          // >0: inside a merged sub-exploration: byte-local branch conditions fork without a feasibility query
}

func (e *Engine) freshName(prefix string) string {
	e.fresh++
	return fmt.Sprintf("%s_%d", sanitize(prefix), e.fresh)
}
func sanitize(s string) string {
	var sb strings.Builder
	for _, r := range s {
		if r >= 'a' && r <= 'z' || r >= 'A' && r <= 'Z' || r >= '0' && r <= '9' || r == '_' {
			sb.WriteRune(r)
		} else {
			sb.WriteRune('_')
		}
	}
	return sb.String()
}
func (e *Engine) freshVar(prefix string, w int) *Term { return Var(e.freshName(prefix), w) }

// boundedVar creates a 64-bit variable with lo <= v <= hi: the bound is asserted in the path condition
// first and only then registered with the simplifier.
// spareCap: the (unknown) spare capacity of a bytes.Buffer's backing array behind its content; one symbolic
// value per modification epoch.
func (e *Engine) spareCap(s *State, o *Obj) *Term {
	if o.Spare == nil || o.SpareEp != o.Epoch {
		o.Spare = e.boundedVar(s, "spare", 0, 1<<20)
		o.SpareEp = o.Epoch
	}
	return o.Spare
}

func (e *Engine) boundedVar(s *State, prefix string, lo, hi int64) *Term {
	v := e.freshVar(prefix, 64)
	s.pc = append(s.pc, Le(CI(lo), v, true), Le(v, CI(hi), true))
	varBounds[v] = [2]int64{lo, hi}
	return v
}

func width(t types.Type) (int, bool, bool) { // bits, signed, ok
	b, ok := t.Underlying().(*types.Basic)
	if !ok {
		return 0, false, false
	}
	switch b.Kind() {
	case types.Bool, types.UntypedBool:
		return 0, false, true
	case types.Int8:
		return 8, true, true
	case types.Int16:
		return 16, true, true
	case types.Int32, types.UntypedRune:
		return 32, true, true
	case types.Int64, types.Int, types.UntypedInt:
		return 64, true, true
	case types.Uint8:
		return 8, false, true
	case types.Uint16:
		return 16, false, true
	case types.Uint32:
		return 32, false, true
	case types.Uint64, types.Uint, types.Uintptr:
		return 64, false, true
	case types.Float32:
		return 32, false, true
	case types.Float64, types.UntypedFloat:
		return 64, false, true
	}
	return 0, false, false
}
func isFloat(t types.Type) bool {
	b, ok := t.Underlying().(*types.Basic)
	return ok && b.Info()&types.IsFloat != 0
}
func isString(t types.Type) bool {
	b, ok := t.Underlying().(*types.Basic)
	return ok && b.Info()&types.IsString != 0
}
func isByteElem(t types.Type) bool {
	w, _, ok := width(t)
	return ok && w == 8
}
func isNamed(t types.Type, pkg, name string) bool {
	n, ok := t.(*types.Named)
	return ok && n.Obj().Pkg() != nil && n.Obj().Pkg().Path() == pkg && n.Obj().Name() == name
}
func isBuffer(t types.Type) bool { return isNamed(t, "bytes", "Buffer") }

func sizeOf(t types.Type) int64 {
	switch u := t.Underlying().(type) {
	case *types.Basic:
		if u.Info()&types.IsString != 0 {
			return 16
		}
		w, _, ok := width(t)
		if ok && w > 0 {
			return int64(w / 8)
		}
		return 1
	case *types.Pointer, *types.Map, *types.Signature, *types.Chan:
		return 8
	case *types.Interface:
		return 16
	case *types.Slice:
		return 24
	case *types.Struct:
		var n int64
		for i := 0; i < u.NumFields(); i++ {
			n += sizeOf(u.Field(i).Type())
		}
		return n
	case *types.Array:
		return u.Len() * sizeOf(u.Elem())
	}
	return 8
}

func (e *Engine) zero(t types.Type) Value {
	switch u := t.Underlying().(type) {
	case *types.Basic:
		if u.Info()&types.IsString != 0 {
			return &StringV{B: EmptyBytes()}
		}
		if u.Kind() == types.UnsafePointer {
			return &Ptr{}
		}
		w, _, ok := width(t)
		if !ok {
			panic("zero: unsupported basic " + t.String())
		}
		if w == 0 {
			return False
		}
		return C(w, 0)
	case *types.Struct:
		sv := &StructV{}
		for i := 0; i < u.NumFields(); i++ {
			sv.F = append(sv.F, e.zero(u.Field(i).Type()))
		}
		return sv
	case *types.Array:
		av := &ArrayV{}
		for i := int64(0); i < u.Len(); i++ {
			av.E = append(av.E, e.zero(u.Elem()))
		}
		return av
	case *types.Pointer:
		return &Ptr{}
	case *types.Slice:
		return &SliceV{Off: CI(0), Len: CI(0), Cap: CI(0)}
	case *types.Interface:
		return &IfaceV{}
	case *types.Signature:
		return &FuncV{}
	case *types.Map, *types.Chan:
		return &Ptr{}
	case *types.Tuple:
		tv := TupleV{}
		for i := 0; i < u.Len(); i++ {
			tv = append(tv, e.zero(u.At(i).Type()))
		}
		return tv
	}
	panic("zero: " + t.String())
}

func (e *Engine) constVal(c *ssa.Const) Value {
	t := c.Type()
	if c.Value == nil {
		return e.zero(t)
	}
	if b, ok := t.Underlying().(*types.Basic); ok {
		if b.Info()&types.IsString != 0 {
			return &StringV{B: ConstBytes(constant.StringVal(c.Value))}
		}
		if b.Info()&types.IsBoolean != 0 {
			return B(constant.BoolVal(c.Value))
		}
		w, _, _ := width(t)
		if b.Info()&types.IsInteger != 0 {
			if i, ok := constant.Int64Val(c.Value); ok {
				return C(w, uint64(i))
			}
			u, _ := constant.Uint64Val(c.Value)
			return C(w, u)
		}
		if b.Info()&types.IsFloat != 0 {
			f, _ := constant.Float64Val(c.Value)
			if w == 32 {
				return C(32, uint64(float32bits(float32(f))))
			}
			return C(64, float64bits(f))
		}
	}
	panic("const: " + c.String())
}

func (e *Engine) get(s *State, f *Frame, v ssa.Value) Value {
	switch x := v.(type) {
	case *ssa.Const:
		return e.constVal(x)
	case *ssa.Global:
		id, ok := e.globals[x]
		if !ok {
			// lazily materialise globals of other packages with their zero value (or an error tag)
			el := x.Type().(*types.Pointer).Elem()
			var val Value
			if types.Identical(el, types.Universe.Lookup("error").Type()) {
				val = &IfaceV{T: types.Typ[types.String], V: &ErrTag{x.Pkg.Pkg.Path() + "." + x.Name()}}
			} else {
				val = e.zero(el)
			}
			objCounter++
			id = objCounter
			e.globals[x] = id
			e.lazyObjs = append(e.lazyObjs, lazyObj{id, &Obj{Kind: kCell, Val: val}})
		}
		if _, present := s.heap[id]; !present {
			for _, lo := range e.lazyObjs {
				if lo.id == id {
					c := *lo.o
					s.heap[id] = &c
				}
			}
		}
		return &Ptr{Obj: id}
	case *ssa.Function:
		return &FuncV{Fn: x}
	case *ssa.Builtin:
		return x
	}
	r, ok := f.locals[v]
	if !ok {
		panic(fmt.Sprintf("unbound %s in %s", v.Name(), f.fn))
	}
	return r
}

type lazyObj struct {
	id int
	o  *Obj
}

// ---------------------------------------------------------------- memory

func navigate(v Value, path []PathElem) Value {
	for _, p := range path {
		switch x := v.(type) {
		case *StructV:
			v = x.F[p.Field]
		case *ArrayV:
			if !p.Idx.IsConst() {
				panic("symbolic array index")
			}
			v = x.E[int(p.Idx.Val)]
		default:
			panic(fmt.Sprintf("navigate %T", v))
		}
	}
	return v
}
func update(v Value, path []PathElem, nv Value) Value {
	if len(path) == 0 {
		return nv
	}
	p := path[0]
	switch x := v.(type) {
	case *StructV:
		c := &StructV{F: append([]Value{}, x.F...)}
		c.F[p.Field] = update(x.F[p.Field], path[1:], nv)
		return c
	case *ArrayV:
		c := &ArrayV{E: append([]Value{}, x.E...)}
		i := int(p.Idx.Val)
		c.E[i] = update(x.E[i], path[1:], nv)
		return c
	}
	panic(fmt.Sprintf("update %T", v))
}

func (e *Engine) site(pos token.Pos) string {
	if !pos.IsValid() {
		return "?"
	}
	p := e.prog.Fset.Position(pos)
	fn := p.Filename
	if i := strings.Index(fn, "/repo/"); i >= 0 {
		fn = fn[i+6:]
	}
	return fmt.Sprintf("%s:%d", fn, p.Line)
}

func (s *State) lockMode() int {
	m := 0
	for _, v := range s.locks {
		if v == -1 {
			return -1
		}
		if v > m {
			m = v
		}
	}
	return m
}

func (e *Engine) access(s *State, obj int, write bool, site string) {
	if obj != 0 && obj <= e.baseMax {
		s.acc = append(s.acc, Access{Obj: obj, Write: write, Lock: s.lockMode(), Site: site})
	}
}

func (e *Engine) load(s *State, p *Ptr, site string) Value {
	if p.Obj == 0 {
		s.panicd = "nil pointer dereference at " + site
		return nil
	}
	e.access(s, p.Obj, false, site)
	o := s.heap[p.Obj]
	if o == nil {
		panic(fmt.Sprintf("dangling object %d at %s", p.Obj, site))
	}
	if p.View != 0 && s.heap[p.View] != nil && s.heap[p.View].Epoch != p.Epoch {
		s.notes = unionStr(s.notes, []string{"stale-view-read: a bytes.Buffer view taken before a later buffer modification is read at " + site})
	}
	switch o.Kind {
	case kCell:
		return navigate(o.Val, p.Path)
	case kBytes, kBuffer:
		if len(p.Path) == 0 { // whole array value
			b := o.B.Norm()
			if b.Vec == nil {
				panic("load of symbolic-length byte array")
			}
			av := &ArrayV{}
			for _, x := range b.Vec {
				av.E = append(av.E, x)
			}
			return av
		}
		return o.B.At(p.Path[0].Idx)
	case kElems:
		if len(p.Path) == 0 {
			return &ArrayV{E: append([]Value{}, o.E...)}
		}
		if !p.Path[0].Idx.IsConst() {
			panic("symbolic index into element vector at " + site)
		}
		return navigate(o.E[int(p.Path[0].Idx.Val)], p.Path[1:])
	}
	panic("load")
}
func (e *Engine) store(s *State, p *Ptr, v Value, site string) {
	if p.Obj == 0 {
		s.panicd = "nil pointer dereference (store) at " + site
		return
	}
	e.access(s, p.Obj, true, site)
	o := s.heap[p.Obj]
	if p.View != 0 && s.heap[p.View] != nil && s.heap[p.View].Epoch != p.Epoch {
		s.notes = unionStr(s.notes, []string{"stale-view-write: a bytes.Buffer view taken before a later buffer modification is written at " + site})
	}
	if p.Obj <= e.baseMax {
		if np, isPtr := v.(*Ptr); isPtr && np.Obj != 0 && s.heap[np.Obj] != nil && s.heap[np.Obj].Kind == kMap {
			s.trace = append(s.trace, TraceEv{Kind: "replace", Obj: p.Obj, Site: site})
		}
	}
	switch o.Kind {
	case kCell:
		o.Val = update(o.Val, p.Path, v)
	case kBytes, kBuffer:
		if len(p.Path) == 0 {
			av := v.(*ArrayV)
			vec := make([]*Term, len(av.E))
			for i := range vec {
				vec[i] = av.E[i].(*Term)
			}
			o.B = VecBytes(vec)
			return
		}
		o.B = UpdateBytes(o.B, p.Path[0].Idx, []*Term{v.(*Term)})
	case kElems:
		if len(p.Path) == 0 {
			o.E = append([]Value{}, v.(*ArrayV).E...)
			return
		}
		if !p.Path[0].Idx.IsConst() {
			panic("symbolic index store at " + site)
		}
		i := int(p.Path[0].Idx.Val)
		o.ownE()
		o.E[i] = update(o.E[i], p.Path[1:], v)
	}
}

// ---------------------------------------------------------------- solver interface on states

func (e *Engine) checkSat(s *State, extra ...*Term) string {
	for _, c := range extra {
		if c == False {
			return "unsat"
		}
	}
	if e.noSlice {
		r := e.solver.Check(append(append([]*Term{}, s.pc...), extra...)...)
		e.solver.Done()
		return r
	}
	r := e.solver.CheckFlat(append(sliceFor(s.pc, extra), extra...)...)
	e.solver.Done()
	return r
}

func (e *Engine) feasible(s *State, c *Term) bool {
	if c == True {
		return true
	}
	if c == False {
		return false
	}
	return e.checkSat(s, c) != "unsat"
}

// mustHold: side condition of an instruction that would otherwise panic. If its negation is
// satisfiable the current path is split: the violating part ends in a panic state.
func (e *Engine) mustHold(s *State, c *Term, what string) (ok bool, forks []*State) {
	if c == True {
		return true, nil
	}
	if c == False {
		s.panicd = what
		return false, nil
	}
	if e.checkSat(s, Not(c)) == "unsat" {
		return true, nil
	}
	// violation possible; is the good part feasible too?
	if e.checkSat(s, c) == "unsat" {
		s.panicd = what
		return false, nil
	}
	bad := s.clone()
	bad.pc = append(bad.pc, Not(c))
	bad.panicd = what
	s.pc = append(s.pc, c)
	return true, []*State{bad}
}

// ---------------------------------------------------------------- main loop

type RunLimits struct {
	MaxPaths int
	MaxSteps int
}

func (e *Engine) Run(init *State) []*State {
	var done []*State
	work := []*State{init}
	for len(work) > 0 {
		s := work[len(work)-1]
		work = work[:len(work)-1]
		for {
			if s.dead {
				break
			}
			if e.Steps&15 == 0 && !e.deadline.IsZero() && time.Now().After(e.deadline) {
				s.cut = "item time budget exceeded"
			}
			if e.Steps&15 == 0 && memExceeded.Load() && s.cut == "" {
				s.cut = "memory budget exceeded"
			}
			if e.abortMsg != "" && s.cut == "" {
				s.cut = e.abortMsg
			}
			if s.panicd != "" || s.cut != "" || len(s.frames) == 0 || s.cutDone {
				done = append(done, s)
				e.Paths++
				break
			}
			forks := e.stepSafe(s)
			if len(forks) > 0 {
				e.Forks += len(forks)
				work = append(work, forks...)
			}
		}
		if mp := e.pathCap(); len(done)+len(work) > mp {
			for _, w := range work {
				w.cut = "path limit"
				done = append(done, w)
			}
			break
		}
	}
	return done
}

func (e *Engine) stepSafe(s *State) (forks []*State) {
	defer func() {
		if r := recover(); r != nil {
			if eu, ok := r.(engineUnsupported); ok {
				s.cut = "unsupported: " + string(eu)
				return
			}
			if str, ok := r.(string); ok {
				s.cut = "engine: " + str
				return
			}
			if err, ok := r.(error); ok {
				s.cut = "engine: " + err.Error()
				return
			}
			s.cut = fmt.Sprintf("engine: %v", r)
		}
	}()
	return e.step(s)
}

type engineUnsupported string

func (e *Engine) pushCall(s *State, fn *ssa.Function, args []Value, call ssa.Value) {
	e.pushCallBind(s, fn, args, nil, call)
}
func (e *Engine) pushCallBind(s *State, fn *ssa.Function, args []Value, bind []Value, call ssa.Value) {
	if fn.Blocks == nil {
		panic(engineUnsupported("no body: " + fn.String()))
	}
	if len(s.frames) > 200 {
		s.cut = "call depth"
		return
	}
	if e.funcs != nil {
		e.funcs[fn.String()] += 0
		if _, ok := e.funcs[fn.String()]; !ok {
			e.funcs[fn.String()] = 0
		}
	}
	f := &Frame{fn: fn, blk: fn.Blocks[0], locals: make(map[ssa.Value]Value, 16), call: call, visits: map[int]int{}}
	for i, p := range fn.Params {
		f.locals[p] = args[i]
	}
	for i, fv := range fn.FreeVars {
		f.locals[fv] = bind[i]
	}
	s.frames = append(s.frames, f)
}

func (e *Engine) gotoBlock(s *State, f *Frame, b *ssa.BasicBlock) {
	f.prev, f.blk, f.ip = f.blk, b, 0
	if b.Index <= f.prev.Index { // back edge (approximation by block order): count for the unwinding bound
		f.visits[b.Index]++
		if e.unroll > 0 && f.visits[b.Index] > e.unroll && !(e.cutFn == f.fn && e.cutHdr == b) {
			s.cut = fmt.Sprintf("unwind>%d at %s", e.unroll, e.site(firstPos(b)))
		}
	}
}
func firstPos(b *ssa.BasicBlock) token.Pos {
	for _, in := range b.Instrs {
		if in.Pos().IsValid() {
			return in.Pos()
		}
	}
	return token.NoPos
}

func (e *Engine) doReturn(s *State, f *Frame, rv Value) {
	s.frames = s.frames[:len(s.frames)-1]
	if len(s.frames) == 0 {
		s.ret = rv
	} else if f.call != nil {
		s.frames[len(s.frames)-1].locals[f.call] = rv
	}
}

func (e *Engine) step(s *State) []*State {
	f := s.frames[len(s.frames)-1]
	in := f.blk.Instrs[f.ip]
	f.ip++
	s.steps++
	e.Steps++
	if e.funcs != nil {
		e.funcs[f.fn.String()]++
	}
	if e.trace {
		fmt.Printf("  [%s] %s\n", f.fn.Name(), in)
	}
	set := func(v Value) { f.locals[in.(ssa.Value)] = v }
	switch x := in.(type) {
	case *ssa.Alloc:
		t := x.Type().(*types.Pointer).Elem()
		switch {
		case isBuffer(t):
			set(&Ptr{Obj: s.newObj(&Obj{Kind: kBuffer, B: EmptyBytes(), R: CI(0)})})
		default:
			if at, ok := t.Underlying().(*types.Array); ok {
				if isByteElem(at.Elem()) {
					set(&Ptr{Obj: s.newObj(&Obj{Kind: kBytes, B: RepeatByte(C(8, 0), CI(at.Len())), ET: at.Elem()})})
				} else {
					o := &Obj{Kind: kElems, ET: at.Elem()}
					for i := int64(0); i < at.Len(); i++ {
						o.E = append(o.E, e.zero(at.Elem()))
					}
					set(&Ptr{Obj: s.newObj(o)})
				}
			} else {
				set(&Ptr{Obj: s.newObj(&Obj{Kind: kCell, Val: e.zero(t)})})
			}
		}
		if x.Heap {
			s.allocs = append(s.allocs, AllocRec{Size: CI(sizeOf(t)), Site: e.site(x.Pos())})
		}
	case *ssa.FieldAddr:
		p := e.get(s, f, x.X).(*Ptr)
		if p.Obj == 0 {
			s.panicd = "nil pointer dereference at " + e.site(x.Pos())
			return nil
		}
		set(&Ptr{Obj: p.Obj, Path: append(append([]PathElem{}, p.Path...), PathElem{Field: x.Field})})
	case *ssa.Field:
		sv := e.get(s, f, x.X).(*StructV)
		set(sv.F[x.Field])
	case *ssa.IndexAddr:
		idx := e.toInt(e.get(s, f, x.Index).(*Term), x.Index.Type())
		switch b := e.get(s, f, x.X).(type) {
		case *Ptr: // pointer to array
			if b.Obj == 0 {
				s.panicd = "nil pointer dereference at " + e.site(x.Pos())
				return nil
			}
			n := x.X.Type().Underlying().(*types.Pointer).Elem().Underlying().(*types.Array).Len()
			ok, forks := e.mustHold(s, And(Le(CI(0), idx, true), Lt(idx, CI(n), true)), "index out of range at "+e.site(x.Pos()))
			if !ok {
				return forks
			}
			if !idx.IsConst() && n <= 64 && s.heap[b.Obj].Kind == kCell {
				// a small array of values (a dispatch table ...) indexed by a symbolic value: one state per feasible slot
				var feas []int64
				for k := int64(0); k < n; k++ {
					if e.feasible(s, Eq(idx, CI(k))) {
						feas = append(feas, k)
					}
				}
				if len(feas) == 0 {
					s.dead = true
					return forks
				}
				sts := []*State{s}
				for i := 1; i < len(feas); i++ {
					st := s.clone()
					sts = append(sts, st)
					forks = append(forks, st)
				}
				for i, k := range feas {
					st := sts[i]
					st.pc = append(st.pc, Eq(idx, CI(k)))
					p := &Ptr{Obj: b.Obj, Path: append(append([]PathElem{}, b.Path...), PathElem{Idx: CI(k)})}
					if i == 0 {
						set(p)
					} else {
						st.frames[len(st.frames)-1].locals[x] = p
					}
				}
				return forks
			}
			set(&Ptr{Obj: b.Obj, Path: append(append([]PathElem{}, b.Path...), PathElem{Idx: idx})})
			return forks
		case *SliceV:
			ok, forks := e.mustHold(s, And(Le(CI(0), idx, true), Lt(idx, b.Len, true)), "index out of range at "+e.site(x.Pos()))
			if !ok {
				return forks
			}
			set(&Ptr{Obj: b.Obj, Path: []PathElem{{Idx: Add(b.Off, idx)}}, View: b.View, Epoch: b.Epoch})
			return forks
		default:
			panic(fmt.Sprintf("IndexAddr on %T", b))
		}
	case *ssa.Index:
		idx := e.toInt(e.get(s, f, x.Index).(*Term), x.Index.Type())
		switch b := e.get(s, f, x.X).(type) {
		case *StringV:
			ok, forks := e.mustHold(s, And(Le(CI(0), idx, true), Lt(idx, b.B.Len, true)), "string index out of range at "+e.site(x.Pos()))
			if !ok {
				return forks
			}
			set(b.B.At(idx))
			return forks
		case *ArrayV:
			if !idx.IsConst() {
				panic(engineUnsupported("symbolic index into array value"))
			}
			if int(idx.Val) >= len(b.E) {
				s.panicd = "index out of range at " + e.site(x.Pos())
				return nil
			}
			set(b.E[int(idx.Val)])
		default:
			panic(fmt.Sprintf("Index on %T", b))
		}
	case *ssa.UnOp:
		v := e.get(s, f, x.X)
		switch x.Op {
		case token.MUL:
			r := e.load(s, v.(*Ptr), e.site(x.Pos()))
			if s.panicd != "" {
				return nil
			}
			// *(*string)(unsafe.Pointer(&bytes)): a slice header read as a string shares the slice's memory
			if sl, isSlice := r.(*SliceV); isSlice && isString(x.Type()) {
				if sl.Obj == 0 {
					r = &StringV{B: EmptyBytes()}
				} else {
					r = &StringV{B: SliceBytes(s.heap[sl.Obj].B, sl.Off, Add(sl.Off, sl.Len)), Alias: sl.Obj}
				}
			}
			set(r)
		case token.NOT:
			set(Not(v.(*Term)))
		case token.SUB:
			t := v.(*Term)
			if isFloat(x.X.Type()) {
				set(Bin("bvxor", t, C(t.W, uint64(1)<<uint(t.W-1))))
			} else {
				set(Sub(C(t.W, 0), t))
			}
		case token.XOR:
			t := v.(*Term)
			set(Bin("bvxor", t, C(t.W, mask(t.W))))
		default:
			panic(engineUnsupported("unop " + x.Op.String()))
		}
	case *ssa.Store:
		e.store(s, e.get(s, f, x.Addr).(*Ptr), e.get(s, f, x.Val), e.site(x.Pos()))
		if s.panicd != "" {
			return nil
		}
	case *ssa.BinOp:
		v, forks, ok := e.binop(s, x, e.get(s, f, x.X), e.get(s, f, x.Y))
		if !ok {
			return forks
		}
		set(v)
		return forks
	case *ssa.Convert:
		v := e.get(s, f, x.X)
		if t, isT := v.(*Term); isT && isString(x.Type()) && !t.IsConst() {
			// string(rune) of a symbolic rune: exact below 0x80, havoc (2..4 bytes) above
			site := e.site(x.Pos())
			return e.forkRune(s, t, site, func(st *State, b *Bytes) {
				st.frames[len(st.frames)-1].locals[x] = &StringV{B: b}
			})
		}
		set(e.convert(s, x, v))
	case *ssa.ChangeType:
		set(e.get(s, f, x.X))
	case *ssa.ChangeInterface:
		set(e.get(s, f, x.X))
	case *ssa.MakeInterface:
		set(&IfaceV{T: x.X.Type(), V: e.get(s, f, x.X)})
		if sizeOf(x.X.Type()) > 0 {
			if _, isPtr := x.X.Type().Underlying().(*types.Pointer); !isPtr {
				s.allocs = append(s.allocs, AllocRec{Size: CI(sizeOf(x.X.Type())), Site: e.site(x.Pos())})
			}
		}
	case *ssa.TypeAssert:
		iv := e.get(s, f, x.X).(*IfaceV)
		ok := false
		if iv.T != nil {
			if _, isIface := x.AssertedType.Underlying().(*types.Interface); isIface {
				ok = types.Implements(iv.T, x.AssertedType.Underlying().(*types.Interface))
			} else {
				ok = types.Identical(iv.T, x.AssertedType)
			}
		}
		_, toIface := x.AssertedType.Underlying().(*types.Interface)
		var res Value
		if ok {
			if toIface {
				res = iv
			} else {
				res = iv.V
			}
		} else {
			res = e.zero(x.AssertedType)
		}
		if x.CommaOk {
			set(TupleV{res, B(ok)})
		} else {
			if !ok {
				s.panicd = "interface conversion (type assertion) failed at " + e.site(x.Pos())
				return nil
			}
			set(res)
		}
	case *ssa.Extract:
		set(e.get(s, f, x.Tuple).(TupleV)[x.Index])
	case *ssa.MakeSlice:
		return e.makeSlice(s, f, x, set)
	case *ssa.Slice:
		return e.slice(s, f, x, set)
	case *ssa.Phi:
		if e.cutFn == f.fn && e.cutHdr == f.blk {
			if f.ip == 1 {
				f.cutVis++
			}
			if f.cutVis == 1 {
				if f.ip == 1 {
					e.cutInit(s, f)
				}
				if _, bound := f.locals[x]; bound {
					break
				}
			} else {
				if s.cutNext == nil {
					s.cutNext = map[ssa.Value]Value{}
				}
				for i, p := range f.blk.Preds {
					if p == f.prev {
						s.cutNext[x] = e.get(s, f, x.Edges[i])
					}
				}
				if _, more := f.blk.Instrs[f.ip].(*ssa.Phi); !more {
					s.cutDone = true
				}
				break
			}
		}
		if f.pm != nil {
			var a, b Value
			for i, p := range f.blk.Preds {
				if p == f.pm.thenB {
					a = e.get(s, f, x.Edges[i])
				}
				if p == f.pm.elseB {
					b = e.get(s, f, x.Edges[i])
				}
			}
			mv, ok := mergeValue(f.pm.c, a, b)
			if !ok {
				panic("phi merge of incompatible values")
			}
			set(mv)
			break
		}
		for i, p := range f.blk.Preds {
			if p == f.prev {
				set(e.get(s, f, x.Edges[i]))
			}
		}
	case *ssa.Jump:
		f.pm = nil
		e.gotoBlock(s, f, f.blk.Succs[0])
	case *ssa.If:
		f.pm = nil
		c := e.get(s, f, x.Cond).(*Term)
		if !c.IsBoolConst() {
			if join, tb, eb, ok := diamond(f.blk); ok {
				mergeable := true
				for _, in := range join.Instrs {
					ph, isPhi := in.(*ssa.Phi)
					if !isPhi {
						break
					}
					if _, _, basic := width(ph.Type()); !basic {
						mergeable = false
					}
				}
				if mergeable {
					for _, arm := range []*ssa.BasicBlock{tb, eb} {
						if arm == join {
							continue
						}
						for _, in := range arm.Instrs[:len(arm.Instrs)-1] {
							switch y := in.(type) {
							case *ssa.BinOp:
								v, _, _ := e.binop(s, y, e.get(s, f, y.X), e.get(s, f, y.Y))
								f.locals[y] = v
							case *ssa.Convert:
								f.locals[y] = e.convert(s, y, e.get(s, f, y.X))
							case *ssa.UnOp:
								t := e.get(s, f, y.X).(*Term)
								switch y.Op {
								case token.NOT:
									f.locals[y] = Not(t)
								case token.SUB:
									f.locals[y] = Sub(C(t.W, 0), t)
								case token.XOR:
									f.locals[y] = Bin("bvxor", t, C(t.W, mask(t.W)))
								}
							}
						}
					}
					pt, pe := tb, eb
					if tb == join {
						pt = f.blk
					}
					if eb == join {
						pe = f.blk
					}
					f.pm = &phiMerge{c: c, thenB: pt, elseB: pe}
					f.prev, f.blk, f.ip = f.blk, join, 0
					return nil
				}
			}
		}
		succT, succF := f.blk.Succs[0], f.blk.Succs[1]
		from := f.blk
		// short-circuit fusion: `a || b` / `a && b` compile to two consecutive branches; when the second test
		// is side-effect free it is evaluated now and the two are decided as one condition (otherwise a loop
		// whose condition is a disjunction forks 2^n ways over arms that lead to the same place)
		for fuse := 0; fuse < 8 && !c.IsBoolConst(); fuse++ {
			if c2, m, ok := e.speculate(s, f, succF); ok && m.Succs[0] == succT && noPhis(succT) { // a || b
				c, succF, from = Or(c, c2), m.Succs[1], m
				continue
			}
			if c2, m, ok := e.speculate(s, f, succT); ok && m.Succs[1] == succF && noPhis(succF) { // a && b
				c, succT, from = And(c, c2), m.Succs[0], m
				continue
			}
			break
		}
		goT := func(st *State, fr *Frame) {
			fr.blk = from
			e.gotoBlock(st, fr, succT)
		}
		goF := func(st *State, fr *Frame) {
			fr.blk = from
			e.gotoBlock(st, fr, succF)
		}
		if from != f.blk && (!noPhis(succT) || !noPhis(succF)) {
			// the targets distinguish their predecessors: fall back to the unfused branch
			succT, succF, from = f.blk.Succs[0], f.blk.Succs[1], f.blk
			c = e.get(s, f, x.Cond).(*Term)
		}
		if c == True {
			goT(s, f)
			return nil
		}
		if c == False {
			goF(s, f)
			return nil
		}
		if e.symLoopLimit > 0 && !isByteCond(c) && f.visits[f.blk.Index] >= e.symLoopLimit {
			s.cut = "symbolic-trip-count loop at " + e.site(x.Pos())
			e.abortMsg = s.cut // the whole item is re-run with concrete lengths: do not explore the other paths
			return nil
		}
		tf, ff := true, true
		if !(e.lazy > 0 && isByteCond(c)) {
			tf = e.feasible(s, c)
			if tf {
				ff = e.feasible(s, Not(c))
			}
		}
		switch {
		case tf && ff:
			o := s.clone()
			of := o.frames[len(o.frames)-1]
			o.pc = append(o.pc, Not(c))
			goF(o, of)
			s.pc = append(s.pc, c)
			goT(s, f)
			return []*State{o}
		case tf:
			goT(s, f)
		default:
			goF(s, f)
		}
	case *ssa.Return:
		var rv Value
		if len(x.Results) == 1 {
			rv = e.get(s, f, x.Results[0])
		} else if len(x.Results) > 1 {
			t := TupleV{}
			for _, r := range x.Results {
				t = append(t, e.get(s, f, r))
			}
			rv = t
		}
		e.doReturn(s, f, rv)
	case *ssa.RunDefers:
		// run deferred calls in LIFO order; each is executed to completion via a nested exploration
		for len(f.defers) > 0 {
			d := f.defers[len(f.defers)-1]
			f.defers = f.defers[:len(f.defers)-1]
			forks := e.callValue(s, f, d.cc, d.fn, d.args, nil, e.site(x.Pos()))
			if len(forks) > 0 || s.frames[len(s.frames)-1] != f {
				// a deferred call with a body: run it inline; RunDefers is re-entered afterwards
				if s.frames[len(s.frames)-1] != f {
					f.ip-- // come back to RunDefers when the callee returns
				}
				return forks
			}
			if s.panicd != "" {
				return nil
			}
		}
	case *ssa.Call:
		return e.call(s, f, x.Call, x)
	case *ssa.Defer:
		var a []Value
		for _, v := range x.Call.Args {
			a = append(a, e.get(s, f, v))
		}
		var fnv Value
		if !x.Call.IsInvoke() {
			fnv = e.get(s, f, x.Call.Value)
		} else {
			fnv = e.get(s, f, x.Call.Value)
		}
		cc := x.Call
		f.defers = append(f.defers, deferred{fn: fnv, args: a, cc: &cc})
	case *ssa.MakeMap:
		set(&Ptr{Obj: s.newObj(&Obj{Kind: kMap})})
		s.allocs = append(s.allocs, AllocRec{Size: CI(48), Site: e.site(x.Pos())})
	case *ssa.MapUpdate:
		mp := e.get(s, f, x.Map).(*Ptr)
		if mp.Obj == 0 {
			s.panicd = "assignment to entry in nil map at " + e.site(x.Pos())
			return nil
		}
		e.access(s, mp.Obj, true, e.site(x.Pos()))
		m := s.heap[mp.Obj]
		k, v := e.get(s, f, x.Key), e.get(s, f, x.Value)
		if mp.Obj <= e.baseMax {
			vid := 0
			if iv, ok := v.(*IfaceV); ok && iv.T != nil {
				if pp, ok := iv.V.(*Ptr); ok {
					vid = pp.Obj
				}
			}
			s.trace = append(s.trace, TraceEv{Kind: "update", Obj: mp.Obj, Key: constKey(k), Val: vid, Site: e.site(x.Pos())})
		}
		found := false
		for i := range m.M {
			c := keyEqTerm(m.M[i].K, k)
			if c == True {
				m.M[i].V, found = v, true
			} else if c != False {
				panic(engineUnsupported("map update with symbolic key"))
			}
		}
		if !found {
			m.M = append(m.M, MapEntry{k, v})
		}
	case *ssa.Lookup:
		return e.lookup(s, f, x, set)
	case *ssa.MakeClosure:
		var bind []Value
		for _, b := range x.Bindings {
			bind = append(bind, e.get(s, f, b))
		}
		set(&FuncV{Fn: x.Fn.(*ssa.Function), Bind: bind})
	case *ssa.Panic:
		s.panicd = "explicit panic at " + e.site(x.Pos())
	case *ssa.DebugRef:
	case *ssa.Range:
		switch v := e.get(s, f, x.X).(type) {
		case *Ptr: // map
			set(&rangeIter{m: v.Obj})
		default:
			panic(engineUnsupported(fmt.Sprintf("range over %T", v)))
		}
	case *ssa.Next:
		it := e.get(s, f, x.Iter).(*rangeIter)
		m := s.heap[it.m]
		kt := x.Type().(*types.Tuple)
		if it.m == 0 || m == nil || it.i >= len(m.M) {
			set(TupleV{False, e.zeroOrNil(kt.At(1).Type()), e.zeroOrNil(kt.At(2).Type())})
		} else {
			en := m.M[it.i]
			f.locals[x.Iter] = &rangeIter{m: it.m, i: it.i + 1}
			set(TupleV{True, en.K, en.V})
		}
	case *ssa.Go, *ssa.Select, *ssa.Send, *ssa.MakeChan:
		panic(engineUnsupported(fmt.Sprintf("concurrency instruction %T at %s", in, e.site(in.Pos()))))
	default:
		panic(engineUnsupported(fmt.Sprintf("instr %T: %s", in, in)))
	}
	return nil
}

type rangeIter struct {
	m int
	i int
}

func (e *Engine) zeroOrNil(t types.Type) Value {
	if t == nil {
		return nil
	}
	if b, ok := t.(*types.Basic); ok && b.Kind() == types.Invalid {
		return nil
	}
	return e.zero(t)
}

func (e *Engine) toInt(t *Term, ty types.Type) *Term {
	if t.W == 64 {
		return t
	}
	_, signed, _ := width(ty)
	if signed {
		return SExt(t, 64)
	}
	return ZExt(t, 64)
}

func (e *Engine) makeSlice(s *State, f *Frame, x *ssa.MakeSlice, set func(Value)) []*State {
	ln := e.toInt(e.get(s, f, x.Len).(*Term), x.Len.Type())
	cp := e.toInt(e.get(s, f, x.Cap).(*Term), x.Cap.Type())
	el := x.Type().Underlying().(*types.Slice).Elem()
	esz := sizeOf(el)
	site := e.site(x.Pos())
	// Go: panics if len < 0, len > cap, or the size is out of range
	maxElems := int64(1) << 47 / max(esz, 1)
	okc := And(Le(CI(0), ln, true), Le(ln, cp, true), Le(cp, CI(maxElems), true))
	ok, forks := e.mustHold(s, okc, "makeslice: len/cap out of range at "+site)
	if !ok {
		return forks
	}
	var avail *Term
	if e.watchBuf != 0 {
		if wb := s.heap[e.watchBuf]; wb != nil {
			avail = Sub(wb.B.Len, wb.R)
		}
	}
	s.allocs = append(s.allocs, AllocRec{Size: MulC(cp, esz), Avail: avail, Site: site})
	if isByteElem(el) {
		id := s.newObj(&Obj{Kind: kBytes, B: RepeatByte(C(8, 0), cp), ET: el})
		set(&SliceV{Obj: id, Off: CI(0), Len: ln, Cap: cp})
		return forks
	}
	if ln.IsConst() && ln.Val == 0 && !(cp.IsConst() && cp.Val <= 4096) {
		// zero length with a large or symbolic capacity: the capacity is only a hint for append (modelled as
		// reallocating); small concrete capacities are modelled exactly (append fills them in place)
		id := s.newObj(&Obj{Kind: kElems, ET: el})
		set(&SliceV{Obj: id, Off: CI(0), Len: CI(0), Cap: CI(0)})
		return forks
	}
	if !cp.IsConst() {
		if !ln.IsConst() || ln.Val != 0 {
			panic(engineUnsupported("make of non-byte slice with symbolic length at " + site))
		}
		// symbolic capacity, zero length: capacity is only a hint for append; model as empty
		id := s.newObj(&Obj{Kind: kElems, ET: el})
		set(&SliceV{Obj: id, Off: CI(0), Len: CI(0), Cap: CI(0)})
		return forks
	}
	if cp.Val > 1<<20 {
		panic(engineUnsupported("make of huge concrete slice at " + site))
	}
	o := &Obj{Kind: kElems, ET: el}
	for i := 0; i < int(cp.Val); i++ {
		o.E = append(o.E, e.zero(el))
	}
	set(&SliceV{Obj: s.newObj(o), Off: CI(0), Len: ln, Cap: cp})
	return forks
}

func (e *Engine) slice(s *State, f *Frame, x *ssa.Slice, set func(Value)) []*State {
	var lo, hi *Term
	if x.Low != nil {
		lo = e.toInt(e.get(s, f, x.Low).(*Term), x.Low.Type())
	}
	if x.High != nil {
		hi = e.toInt(e.get(s, f, x.High).(*Term), x.High.Type())
	}
	var mx *Term
	if x.Max != nil {
		mx = e.toInt(e.get(s, f, x.Max).(*Term), x.Max.Type())
	}
	site := e.site(x.Pos())
	switch b := e.get(s, f, x.X).(type) {
	case *SliceV:
		if lo == nil {
			lo = CI(0)
		}
		if hi == nil {
			hi = b.Len
		}
		capT := b.Cap
		cond := And(Le(CI(0), lo, true), Le(lo, hi, true), Le(hi, b.Cap, true))
		if mx != nil {
			cond = And(Le(CI(0), lo, true), Le(lo, hi, true), Le(hi, mx, true), Le(mx, b.Cap, true))
			capT = mx
		}
		ok, forks := e.mustHold(s, cond, "slice bounds out of range at "+site)
		if !ok {
			return forks
		}
		if b.View != 0 && b.Obj == b.View && s.heap[b.Obj] != nil && s.heap[b.Obj].Kind == kBuffer {
			// a view of a bytes.Buffer re-sliced past its own length: still legal up to the capacity, and what lies
			// there is either later content of the buffer or whatever the backing array holds behind it
			o := s.heap[b.Obj]
			end := Add(b.Off, hi)
			within := Le(end, o.B.Len, true)
			if within != True {
				more := e.forkBool(s, f, within, func(st *State, yes bool) {
					if yes {
						st.frames[len(st.frames)-1].locals[x] = &SliceV{Obj: b.Obj, Off: Add(b.Off, lo), Len: Sub(hi, lo), Cap: Sub(capT, lo), View: b.View, Epoch: b.Epoch}
						return
					}
					ob := st.heap[b.Obj]
					arr := ArrVar(e.freshName("beyond"))
					extra := &Bytes{Len: Sub(end, ob.B.Len)}
					extra.At = func(i *Term) *Term { return Select(arr, i) }
					content := Concat2(SliceBytes(ob.B, Add(b.Off, lo), ob.B.Len), extra)
					id := st.newObj(&Obj{Kind: kBytes, B: content})
					st.notes = unionStr(st.notes, []string{"view-extended: a bytes.Buffer view is re-sliced past the buffer's content into its spare capacity at " + site})
					st.frames[len(st.frames)-1].locals[x] = &SliceV{Obj: id, Off: CI(0), Len: Sub(hi, lo), Cap: Sub(capT, lo)}
				})
				return append(forks, more...)
			}
		}
		set(&SliceV{Obj: b.Obj, Off: Add(b.Off, lo), Len: Sub(hi, lo), Cap: Sub(capT, lo), View: b.View, Epoch: b.Epoch})
		return forks
	case *StringV:
		if mx != nil {
			panic(engineUnsupported("3-index slice of a string"))
		}
		if lo == nil {
			lo = CI(0)
		}
		if hi == nil {
			hi = b.B.Len
		}
		ok, forks := e.mustHold(s, And(Le(CI(0), lo, true), Le(lo, hi, true), Le(hi, b.B.Len, true)), "string slice bounds out of range at "+site)
		if !ok {
			return forks
		}
		set(&StringV{B: SliceBytes(b.B, lo, hi), Alias: b.Alias})
		return forks
	case *Ptr: // *array -> slice sharing the array object
		if b.Obj == 0 {
			s.panicd = "nil pointer dereference at " + site
			return nil
		}
		n := x.X.Type().Underlying().(*types.Pointer).Elem().Underlying().(*types.Array).Len()
		if mx != nil {
			panic(engineUnsupported("3-index slice of an array"))
		}
		if lo == nil {
			lo = CI(0)
		}
		if hi == nil {
			hi = CI(n)
		}
		ok, forks := e.mustHold(s, And(Le(CI(0), lo, true), Le(lo, hi, true), Le(hi, CI(n), true)), "slice bounds out of range at "+site)
		if !ok {
			return forks
		}
		o := s.heap[b.Obj]
		if len(b.Path) == 0 && (o.Kind == kBytes || o.Kind == kElems) {
			set(&SliceV{Obj: b.Obj, Off: lo, Len: Sub(hi, lo), Cap: Sub(CI(n), lo)})
			return forks
		}
		// array embedded in another object: copy (aliasing lost) and flag
		s.imprec = append(s.imprec, "slice of embedded array copied at "+site)
		arr := e.load(s, b, site).(*ArrayV)
		el := x.Type().Underlying().(*types.Slice).Elem()
		if isByteElem(el) {
			v := make([]*Term, n)
			for i := range v {
				v[i] = arr.E[i].(*Term)
			}
			id := s.newObj(&Obj{Kind: kBytes, B: VecBytes(v), ET: el})
			set(&SliceV{Obj: id, Off: lo, Len: Sub(hi, lo), Cap: Sub(CI(n), lo)})
		} else {
			id := s.newObj(&Obj{Kind: kElems, E: append([]Value{}, arr.E...), ET: el})
			set(&SliceV{Obj: id, Off: lo, Len: Sub(hi, lo), Cap: Sub(CI(n), lo)})
		}
		return forks
	default:
		panic(fmt.Sprintf("slice of %T", b))
	}
}

func (e *Engine) lookup(s *State, f *Frame, x *ssa.Lookup, set func(Value)) []*State {
	if sv, isStr := e.get(s, f, x.X).(*StringV); isStr { // string index
		idx := e.toInt(e.get(s, f, x.Index).(*Term), x.Index.Type())
		ok, forks := e.mustHold(s, And(Le(CI(0), idx, true), Lt(idx, sv.B.Len, true)), "string index out of range at "+e.site(x.Pos()))
		if !ok {
			return forks
		}
		set(sv.B.At(idx))
		return forks
	}
	mp := e.get(s, f, x.X).(*Ptr)
	k := e.get(s, f, x.Index)
	zero := e.zero(x.X.Type().Underlying().(*types.Map).Elem())
	result := func(st *State, v Value, ok bool) {
		fr := st.frames[len(st.frames)-1]
		if x.CommaOk {
			fr.locals[x] = TupleV{v, B(ok)}
		} else {
			fr.locals[x] = v
		}
	}
	if mp.Obj == 0 {
		result(s, zero, false)
		return nil
	}
	e.access(s, mp.Obj, false, e.site(x.Pos()))
	entries := s.heap[mp.Obj].M
	keyStr := constKey(k)
	if e.havocLookup[mp.Obj] {
		// the map content is unknown (other goroutines may have changed it): both answers are possible
		o := s.clone()
		var found Value = zero
		if len(entries) > 0 {
			found = entries[0].V
		}
		o.trace = append(o.trace, TraceEv{Kind: "lookup", Obj: mp.Obj, Key: keyStr, Res: true, Site: e.site(x.Pos())})
		result(o, found, true)
		s.trace = append(s.trace, TraceEv{Kind: "lookup", Obj: mp.Obj, Key: keyStr, Res: false, Site: e.site(x.Pos())})
		result(s, zero, false)
		return []*State{o}
	}
	// concrete fast path
	var conds []*Term
	allConcrete := true
	for _, en := range entries {
		c := keyEqTerm(en.K, k)
		conds = append(conds, c)
		if !c.IsBoolConst() {
			allConcrete = false
		}
	}
	if allConcrete {
		for i, c := range conds {
			if c == True {
				result(s, entries[i].V, true)
				return nil
			}
		}
		result(s, zero, false)
		return nil
	}
	// symbolic key: one fork per feasible entry plus "absent"
	var forks []*State
	var none []*Term
	for i, c := range conds {
		none = append(none, Not(c))
		if c == False {
			continue
		}
		if e.feasible(s, c) {
			o := s.clone()
			o.pc = append(o.pc, c)
			result(o, entries[i].V, true)
			forks = append(forks, o)
		}
	}
	absent := And(none...)
	if e.feasible(s, absent) {
		s.pc = append(s.pc, absent)
		result(s, zero, false)
	} else {
		s.dead = true
	}
	return forks
}

// keyEqTerm: symbolic equality of two map keys
func keyEqTerm(a, b Value) *Term {
	switch x := a.(type) {
	case *Term:
		return Eq(x, b.(*Term))
	case *StringV:
		return strEqTerm(x.B, b.(*StringV).B)
	}
	panic(fmt.Sprintf("map key %T", a))
}

// strEqTerm: equality of two byte sequences, at least one of which has a concrete length
func strEqTerm(a, b *Bytes) *Term {
	a, b = a.Norm(), b.Norm()
	if b.Vec != nil && a.Vec == nil {
		a, b = b, a
	}
	if a.Vec == nil {
		// both symbolic lengths: bounded by the smaller known upper bound
		_, ha, ok1 := boundsOf(a.Len)
		_, hb, ok2 := boundsOf(b.Len)
		if !ok1 && !ok2 {
			panic(engineUnsupported("comparison of two strings of unbounded symbolic length"))
		}
		n := ha
		if !ok1 || (ok2 && hb < ha) {
			n = hb
		}
		cs := []*Term{Eq(a.Len, b.Len)}
		for j := int64(0); j < n; j++ {
			cs = append(cs, Implies(Lt(CI(j), a.Len, true), Eq(a.At(CI(j)), b.At(CI(j)))))
		}
		return And(cs...)
	}
	cs := []*Term{Eq(a.Len, b.Len)}
	if cs[0] == False {
		return False
	}
	for j, c := range a.Vec {
		cs = append(cs, Eq(c, b.At(CI(int64(j)))))
	}
	return And(cs...)
}

func (e *Engine) binop(s *State, x *ssa.BinOp, a, b Value) (Value, []*State, bool) {
	switch av := a.(type) {
	case *Term:
		bv := b.(*Term)
		_, signed, _ := width(x.X.Type())
		if isFloat(x.X.Type()) {
			switch x.Op {
			case token.EQL:
				return fpEq(av, bv), nil, true
			case token.NEQ:
				return Not(fpEq(av, bv)), nil, true
			case token.LSS:
				return fpLt(av, bv), nil, true
			case token.GTR:
				return fpLt(bv, av), nil, true
			case token.LEQ:
				return Or(fpLt(av, bv), fpEq(av, bv)), nil, true
			case token.GEQ:
				return Or(fpLt(bv, av), fpEq(av, bv)), nil, true
			case token.ADD, token.SUB, token.MUL, token.QUO:
				panic(engineUnsupported("floating-point arithmetic at " + e.site(x.Pos())))
			}
		}
		switch x.Op {
		case token.ADD:
			return Add(av, bv), nil, true
		case token.SUB:
			return Sub(av, bv), nil, true
		case token.MUL:
			return Mul(av, bv), nil, true
		case token.EQL:
			return Eq(av, bv), nil, true
		case token.NEQ:
			return Not(Eq(av, bv)), nil, true
		case token.LSS:
			return Lt(av, bv, signed), nil, true
		case token.GTR:
			return Lt(bv, av, signed), nil, true
		case token.LEQ:
			return Le(av, bv, signed), nil, true
		case token.GEQ:
			return Le(bv, av, signed), nil, true
		case token.AND:
			if av.W == 0 {
				return And(av, bv), nil, true
			}
			return Bin("bvand", av, bv), nil, true
		case token.OR:
			if av.W == 0 {
				return Or(av, bv), nil, true
			}
			return Bin("bvor", av, bv), nil, true
		case token.XOR:
			return Bin("bvxor", av, bv), nil, true
		case token.AND_NOT:
			return Bin("bvand", av, Bin("bvxor", bv, C(bv.W, mask(bv.W)))), nil, true
		case token.SHR, token.SHL:
			// Go: shift count >= width gives 0 (or sign fill); SMT-LIB agrees for bvshl/bvlshr/bvashr
			sh := bv
			if bv.W > av.W {
				// saturate the count
				big := Lt(C(bv.W, uint64(av.W)), bv, false)
				sh = Ite(big, C(av.W, uint64(av.W)), Extract(av.W-1, 0, bv))
			} else if bv.W < av.W {
				sh = ZExt(bv, av.W)
			}
			if x.Op == token.SHL {
				return Bin("bvshl", av, sh), nil, true
			}
			if signed {
				return Bin("bvashr", av, sh), nil, true
			}
			return Bin("bvlshr", av, sh), nil, true
		case token.REM, token.QUO:
			ok, forks := e.mustHold(s, Not(Eq(bv, C(bv.W, 0))), "integer divide by zero at "+e.site(x.Pos()))
			if !ok {
				return nil, forks, false
			}
			op := map[token.Token]map[bool]string{token.REM: {true: "bvsrem", false: "bvurem"}, token.QUO: {true: "bvsdiv", false: "bvudiv"}}[x.Op][signed]
			return Bin(op, av, bv), forks, true
		}
	case *IfaceV:
		bi := b.(*IfaceV)
		var eq bool
		switch {
		case av.T == nil || bi.T == nil:
			eq = av.T == nil && bi.T == nil
		case !types.Identical(av.T, bi.T):
			eq = false
		default:
			switch x1 := av.V.(type) {
			case *ErrTag:
				x2, ok := bi.V.(*ErrTag)
				eq = ok && x1.Msg == x2.Msg && !strings.HasPrefix(x1.Msg, "fresh:")
				if ok && x1 == x2 {
					eq = true
				}
			case *Ptr:
				x2 := bi.V.(*Ptr)
				eq = x1.Obj == x2.Obj && len(x1.Path) == len(x2.Path)
			case *Term:
				t := Eq(x1, bi.V.(*Term))
				if x.Op == token.NEQ {
					t = Not(t)
				}
				return t, nil, true
			default:
				panic(engineUnsupported("interface comparison"))
			}
		}
		if x.Op == token.EQL {
			return B(eq), nil, true
		}
		return B(!eq), nil, true
	case *Ptr:
		bp := b.(*Ptr)
		eq := av.Obj == bp.Obj && pathEq(av.Path, bp.Path)
		if x.Op == token.EQL {
			return B(eq), nil, true
		}
		return B(!eq), nil, true
	case *StringV:
		bs := b.(*StringV)
		switch x.Op {
		case token.ADD:
			return &StringV{B: Concat2(av.B, bs.B)}, nil, true
		case token.EQL:
			return strEqTerm(av.B, bs.B), nil, true
		case token.NEQ:
			return Not(strEqTerm(av.B, bs.B)), nil, true
		}
	case *SliceV:
		// only comparison with nil is legal
		bs := b.(*SliceV)
		isnil := av.Obj == 0 && bs.Obj == 0
		other := av
		if av.Obj == 0 {
			other = bs
		}
		_ = other
		eq := isnil
		if x.Op == token.EQL {
			return B(eq), nil, true
		}
		return B(!eq), nil, true
	case *FuncV:
		bf := b.(*FuncV)
		eq := av.Fn == nil && bf.Fn == nil
		if x.Op == token.EQL {
			return B(eq), nil, true
		}
		return B(!eq), nil, true
	}
	panic(engineUnsupported(fmt.Sprintf("binop %s on %T at %s", x.Op, a, e.site(x.Pos()))))
}

func pathEq(a, b []PathElem) bool {
	if len(a) != len(b) {
		return false
	}
	for i := range a {
		if a[i].Field != b[i].Field || a[i].Idx != b[i].Idx {
			return false
		}
	}
	return true
}

func utf8Rune(r *Term) *Bytes {
	// exact for constants; symbolic runes must be < 0x80 (caller forks)
	if r.IsConst() {
		v := rune(sext(r.Val, r.W))
		return ConstBytes(string(v))
	}
	return VecBytes([]*Term{Extract(7, 0, r)})
}

func (e *Engine) convert(s *State, x *ssa.Convert, v Value) Value {
	from, to := x.X.Type().Underlying(), x.Type().Underlying()
	if isString(x.Type()) {
		switch fv := v.(type) {
		case *SliceV: // string([]byte) copies
			if fv.Obj == 0 {
				return &StringV{B: EmptyBytes()}
			}
			b := s.heap[fv.Obj].B
			s.allocs = append(s.allocs, AllocRec{Size: fv.Len, Site: e.site(x.Pos())})
			return &StringV{B: SliceBytes(b, fv.Off, Add(fv.Off, fv.Len))}
		case *Term: // string(rune): constants only here (symbolic runes are forked in step)
			return &StringV{B: utf8Rune(fv)}
		case *StringV:
			return fv
		}
	}
	if _, ok := to.(*types.Slice); ok {
		if sv, isStr := v.(*StringV); isStr { // []byte(string) copies
			id := s.newObj(&Obj{Kind: kBytes, B: sv.B, ET: types.Typ[types.Uint8]})
			s.allocs = append(s.allocs, AllocRec{Size: sv.B.Len, Site: e.site(x.Pos())})
			return &SliceV{Obj: id, Off: CI(0), Len: sv.B.Len, Cap: sv.B.Len}
		}
		return v
	}
	if _, ok := to.(*types.Pointer); ok {
		return v
	}
	if tb, ok := to.(*types.Basic); ok && tb.Kind() == types.UnsafePointer {
		return v
	}
	if fb, ok := from.(*types.Basic); ok && fb.Kind() == types.UnsafePointer {
		if tb, ok := to.(*types.Basic); ok && tb.Kind() == types.Uintptr {
			// the numeric value of an address: arbitrary (where the allocator put the object), so alignment tests
			// on it go both ways
			return e.freshVar("addr", 64)
		}
	}
	fw, fs, ok1 := width(from)
	tw, _, ok2 := width(to)
	if ok1 && ok2 {
		t := v.(*Term)
		if isFloat(from) != isFloat(to) || (isFloat(from) && fw != tw) {
			if t.IsConst() && isFloat(to) && !isFloat(from) {
				iv := sext(t.Val, fw)
				if !fs {
					if tw == 32 {
						return C(32, uint64(float32bits(float32(t.Val))))
					}
					return C(64, float64bits(float64(t.Val)))
				}
				if tw == 32 {
					return C(32, uint64(float32bits(float32(iv))))
				}
				return C(64, float64bits(float64(iv)))
			}
			panic(engineUnsupported("int/float conversion of symbolic value at " + e.site(x.Pos())))
		}
		switch {
		case tw == fw:
			return t
		case tw < fw:
			return Extract(tw-1, 0, t)
		case fs:
			return SExt(t, tw)
		default:
			return ZExt(t, tw)
		}
	}
	panic(engineUnsupported("convert " + x.String()))
}

// ---------------------------------------------------------------- diamonds

func pureArm(b *ssa.BasicBlock) bool {
	for _, in := range b.Instrs[:len(b.Instrs)-1] {
		switch y := in.(type) {
		case *ssa.BinOp:
			if y.Op == token.QUO || y.Op == token.REM {
				return false
			}
			if _, _, ok := width(y.X.Type()); !ok {
				return false
			}
		case *ssa.Convert:
			if _, _, ok := width(y.X.Type()); !ok {
				return false
			}
			if _, _, ok := width(y.Type()); !ok {
				return false
			}
		case *ssa.UnOp:
			if y.Op == token.MUL || y.Op == token.ARROW {
				return false
			}
		default:
			return false
		}
	}
	_, ok := b.Instrs[len(b.Instrs)-1].(*ssa.Jump)
	return ok
}

func diamond(b *ssa.BasicBlock) (join, tb, eb *ssa.BasicBlock, ok bool) {
	tb, eb = b.Succs[0], b.Succs[1]
	switch {
	case len(tb.Preds) == 1 && len(eb.Preds) == 1 && pureArm(tb) && pureArm(eb) && tb.Succs[0] == eb.Succs[0] && len(tb.Succs[0].Preds) == 2:
		return tb.Succs[0], tb, eb, true
	case len(tb.Preds) == 1 && pureArm(tb) && tb.Succs[0] == eb && len(eb.Preds) == 2:
		return eb, tb, eb, true
	case len(eb.Preds) == 1 && pureArm(eb) && eb.Succs[0] == tb && len(tb.Preds) == 2:
		return tb, tb, eb, true
	}
	return nil, nil, nil, false
}

// ---------------------------------------------------------------- helpers for drivers

func (s *State) sortedHeapIDs() []int {
	var ids []int
	for k := range s.heap {
		ids = append(ids, k)
	}
	sort.Ints(ids)
	return ids
}

// isByteCond: the condition only compares 8-bit terms. Such a condition cannot bound a loop with a symbolic
// trip count (counters and lengths are 64-bit), so forking on it without asking the solver cannot lead to
// unbounded unrolling; infeasible arms end up as unsatisfiable disjuncts of the merged path condition.
func isByteCond(c *Term) bool {
	switch c.Op {
	case "not", "and", "or":
		for _, a := range c.Args {
			if !isByteCond(a) {
				return false
			}
		}
		return true
	case "=", "bvult", "bvslt":
		return c.Args[0].W == 8
	}
	return false
}

// forkRune: UTF-8 encoding of a symbolic rune: exact for 1- and 2-byte encodings, havoc (3..4 bytes) above.
func (e *Engine) forkRune(s *State, r *Term, site string, apply func(st *State, b *Bytes)) []*State {
	r32 := r
	if r.W > 32 {
		r32 = Extract(31, 0, r)
	} else if r.W < 32 {
		r32 = ZExt(r, 32)
	}
	c1 := Lt(r32, C(32, 0x80), false)
	c2 := And(Not(c1), Lt(r32, C(32, 0x800), false))
	c3 := And(Not(c1), Not(Lt(r32, C(32, 0x800), false)))
	return e.forkN(s, []*Term{c1, c2, c3}, func(st *State, i int) {
		switch i {
		case 0:
			apply(st, VecBytes([]*Term{Extract(7, 0, r32)}))
		case 1:
			b0 := Bin("bvor", C(8, 0xC0), Extract(7, 0, Bin("bvlshr", r32, C(32, 6))))
			b1 := Bin("bvor", C(8, 0x80), Bin("bvand", Extract(7, 0, r32), C(8, 0x3F)))
			apply(st, VecBytes([]*Term{b0, b1}))
		default:
			st.imprec = append(st.imprec, "UTF-8 encoding of a rune >= 0x800 havocked at "+site)
			arr := ArrVar(e.freshName("runestr"))
			L := e.boundedVar(st, "runelen", 3, 4)
			b := &Bytes{Len: L}
			b.At = func(i *Term) *Term { return Select(arr, i) }
			apply(st, b)
		}
	})
}

func constKey(k Value) string {
	if sv, ok := k.(*StringV); ok {
		b := sv.B.Norm()
		if b.Vec != nil {
			out := make([]byte, len(b.Vec))
			for i, t := range b.Vec {
				if !t.IsConst() {
					return "?"
				}
				out[i] = byte(t.Val)
			}
			return string(out)
		}
	}
	return "?"
}

func noPhis(b *ssa.BasicBlock) bool {
	if len(b.Instrs) == 0 {
		return true
	}
	_, isPhi := b.Instrs[0].(*ssa.Phi)
	return !isPhi
}

// speculate evaluates block m (single predecessor, only side-effect-free instructions that provably cannot
// panic, ending in an If) in the current frame and returns its branch condition.
func (e *Engine) speculate(s *State, f *Frame, m *ssa.BasicBlock) (*Term, *ssa.BasicBlock, bool) {
	if len(m.Preds) != 1 || len(m.Instrs) == 0 || len(m.Instrs) > 12 {
		return nil, nil, false
	}
	last, ok := m.Instrs[len(m.Instrs)-1].(*ssa.If)
	if !ok {
		return nil, nil, false
	}
	tmp := map[ssa.Value]Value{}
	get := func(v ssa.Value) Value {
		if x, ok := tmp[v]; ok {
			return x
		}
		return e.get(s, f, v)
	}
	okAll := true
	func() {
		defer func() {
			if r := recover(); r != nil {
				okAll = false
			}
		}()
		for _, in := range m.Instrs[:len(m.Instrs)-1] {
			switch y := in.(type) {
			case *ssa.BinOp:
				if y.Op == token.QUO || y.Op == token.REM {
					okAll = false
					return
				}
				a, b := get(y.X), get(y.Y)
				at, ok1 := a.(*Term)
				_, ok2 := b.(*Term)
				if !ok1 || !ok2 || at == nil {
					okAll = false
					return
				}
				v, _, _ := e.binopPure(y, a, b)
				if v == nil {
					okAll = false
					return
				}
				tmp[y] = v
			case *ssa.Convert:
				t, ok := get(y.X).(*Term)
				if !ok {
					okAll = false
					return
				}
				if _, _, okw := width(y.Type()); !okw {
					okAll = false
					return
				}
				tmp[y] = e.convert(s, y, t)
			case *ssa.UnOp:
				v := get(y.X)
				switch y.Op {
				case token.MUL:
					p, ok := v.(*Ptr)
					if !ok || p.Obj == 0 {
						okAll = false
						return
					}
					saveAcc := len(s.acc)
					r := e.load(s, p, e.site(y.Pos()))
					s.acc = s.acc[:saveAcc]
					tmp[y] = r
				case token.NOT:
					tmp[y] = Not(v.(*Term))
				default:
					okAll = false
					return
				}
			case *ssa.IndexAddr:
				idx := e.toInt(get(y.Index).(*Term), y.Index.Type())
				sl, ok := get(y.X).(*SliceV)
				if !ok {
					okAll = false
					return
				}
				inb := And(Le(CI(0), idx, true), Lt(idx, sl.Len, true))
				if inb != True {
					okAll = false // the bounds check is not decided syntactically: do not speculate
					return
				}
				tmp[y] = &Ptr{Obj: sl.Obj, Path: []PathElem{{Idx: Add(sl.Off, idx)}}, View: sl.View, Epoch: sl.Epoch}
			case *ssa.FieldAddr:
				p, ok := get(y.X).(*Ptr)
				if !ok || p.Obj == 0 {
					okAll = false
					return
				}
				tmp[y] = &Ptr{Obj: p.Obj, Path: append(append([]PathElem{}, p.Path...), PathElem{Field: y.Field})}
			case *ssa.DebugRef:
			default:
				okAll = false
				return
			}
		}
	}()
	if !okAll {
		return nil, nil, false
	}
	c, ok := get(last.Cond).(*Term)
	if !ok {
		return nil, nil, false
	}
	// the speculated values become visible (SSA values are unique; harmless if the block is not taken)
	for k, v := range tmp {
		f.locals[k] = v
	}
	return c, m, true
}

// binopPure: BinOp on terms without side conditions (no division).
func (e *Engine) binopPure(x *ssa.BinOp, a, b Value) (Value, []*State, bool) {
	return e.binop(nil, x, a, b)
}

func (e *Engine) pathCap() int {
	if e.maxPaths > 0 {
		return e.maxPaths
	}
	return 20000
}

// IEEE-754 comparisons on bit patterns (the engine keeps floats as their bits): NaN compares unequal and
// unordered with everything, +0 and -0 are equal.
func fpParts(a *Term) (nan, zero *Term) {
	w := a.W
	mbits := 23
	if w == 64 {
		mbits = 52
	}
	exp := Extract(w-2, mbits, a)
	man := Extract(mbits-1, 0, a)
	nan = And(Eq(exp, C(exp.W, mask(exp.W))), Not(Eq(man, C(man.W, 0))))
	zero = Eq(Extract(w-2, 0, a), C(w-1, 0))
	return
}

func fpEq(a, b *Term) *Term {
	na, za := fpParts(a)
	nb, zb := fpParts(b)
	return And(Not(na), Not(nb), Or(Eq(a, b), And(za, zb)))
}

func fpLt(a, b *Term) *Term {
	na, za := fpParts(a)
	nb, zb := fpParts(b)
	w := a.W
	sign := C(w, uint64(1)<<uint(w-1))
	key := func(t *Term) *Term {
		neg := Eq(Extract(w-1, w-1, t), C(1, 1))
		return Ite(neg, Bin("bvxor", t, C(w, mask(w))), Bin("bvor", t, sign))
	}
	return And(Not(na), Not(nb), Not(And(za, zb)), Lt(key(a), key(b), false))
}
