package main

// C19 - the checksum-service registry behaves as one atomic map under any concurrency.
// Layer 1: sequential specification from several pre-states. Layer 2: lock discipline on every path
// (=> atomicity by reduction and race freedom by the mutex's happens-before, for any number of goroutines).
// Layer 3 (explicit interleavings, schedule as a solver variable) is in c19sched.go.

import (
	"fmt"
	"go/types"
	"sort"
)

type regOp struct {
	Op   string // Registry, Get, Remove, Clear
	Name string // algorithm name ("" for Clear); "?" = symbolic text
	Kind string // for Registry: "service" (real service type with that name), "nonservice"
}

func (o regOp) String() string { return fmt.Sprintf("%s(%s%s)", o.Op, o.Name, o.Kind) }

var svcTypeByAlg = map[string]string{"CRC16": "Crc16ChecksumService", "CRC32": "Crc32ChecksumService", "SSE_BIN": "SseBinChecksumService", "SZSE_BIN": "SzseBinChecksumService"}

func init() {
	drivers["C19"] = &Driver{Prop: "C19", Level: "model_checking",
		Explain: "over the real SSA of Registry/Get/Remove/Clear: (1) sequential specification: from three pre-states (as initialised, one name removed, empty) every operation on every registered name, an unknown name and a symbolic name must leave the map and return what an atomic map would; (2) lock discipline on every path: each access to the registry object or its map happens with the mutex held (writes in write mode), the mutex is free at return, never re-acquired while held, and all shared accesses of an operation lie in a single critical section - then each operation is atomic by reduction and race-free by the mutex's happens-before, for any number of goroutines; (3) for operations with more than one critical section, and always in the thorough tier, bounded interleavings of 2-3 operations are encoded with the schedule as solver variables and checked for linearizability",
		Assume:  []string{"sync.RWMutex provides mutual exclusion and happens-before edges (ghost lock state in the executor)", "the reduction argument (single critical section => atomic) is a meta-argument whose side conditions are what is checked", "explicit interleavings: at most 3 threads with one operation each"},
		Bounds: func(tier string) map[string]any {
			return map[string]any{"pre_states": "initialised (4 services), one removed, empty", "names": "4 registered + 1 unknown + symbolic (length <= 8)", "interleavings": "2 threads x all operation pairs, 3 threads x selected triples (layer 3)"}
		},
		Items: func(c *Ctx) []Item {
			var items []Item
			names := []string{"CRC16", "CRC32", "SSE_BIN", "SZSE_BIN"}
			var ops []regOp
			for _, n := range names {
				ops = append(ops, regOp{"Registry", n, "service"}, regOp{"Get", n, ""}, regOp{"Remove", n, ""})
			}
			ops = append(ops, regOp{"Registry", "", "nonservice"}, regOp{"Get", "NOPE", ""}, regOp{"Remove", "NOPE", ""}, regOp{"Get", "?", ""}, regOp{"Remove", "?", ""}, regOp{"Clear", "", ""})
			for _, pre := range []string{"init", "minus:CRC16", "minus:SZSE_BIN", "empty"} {
				for _, op := range ops {
					pre, op := pre, op
					items = append(items, Item{ID: fmt.Sprintf("seq:%s/%s", pre, op), Run: func(c *Ctx) { c19seq(c, pre, op) }})
				}
			}
			items = append(items, c19schedItems(c)...)
			return items
		}}
}

// registry state: name -> object id of the service (from the engine heap)
func (c *Ctx) regState(s *State) (map[string]Value, int, int, bool) {
	g := c.w.pkgs["codec"].Var("checksumServiceContext")
	if g == nil {
		return nil, 0, 0, false
	}
	cell := s.heap[c.e().globals[g]]
	p, ok := cell.Val.(*Ptr)
	if !ok || p.Obj == 0 {
		return nil, 0, 0, false
	}
	ctx, ok := s.heap[p.Obj].Val.(*StructV)
	if !ok {
		return nil, 0, 0, false
	}
	st := c.w.typeOf("codec", "ChecksumServiceContext").Underlying().(*types.Struct)
	ci := structField(st, "cache")
	if ci < 0 {
		return nil, 0, 0, false
	}
	mp, ok := ctx.F[ci].(*Ptr)
	if !ok {
		return nil, 0, 0, false
	}
	out := map[string]Value{}
	if mp.Obj != 0 {
		for _, en := range s.heap[mp.Obj].M {
			k := en.K.(*StringV).B.Norm()
			if k.Vec == nil {
				return nil, 0, 0, false
			}
			out[string(evalTerms(k.Vec, func(t *Term) uint64 { return t.Val }))] = en.V
		}
	}
	return out, p.Obj, mp.Obj, true
}

func sameIface(a, b Value) bool {
	x, ok1 := a.(*IfaceV)
	y, ok2 := b.(*IfaceV)
	if !ok1 || !ok2 {
		return false
	}
	if x.T == nil || y.T == nil {
		return x.T == nil && y.T == nil
	}
	if !types.Identical(x.T, y.T) {
		return false
	}
	px, ok1 := x.V.(*Ptr)
	py, ok2 := y.V.(*Ptr)
	if ok1 && ok2 {
		return px.Obj == py.Obj
	}
	return ok1 == ok2
}

func (c *Ctx) regPrepare(pre string) *State {
	e := c.e()
	s := c.w.newState()
	run := func(fn string, args []Value) {
		f := c.w.fn("codec." + fn)
		e.pushCall(s, f, args, nil)
		fin := e.Run(s)
		if len(fin) != 1 || fin[0].panicd != "" || fin[0].cut != "" {
			panic(bindErr("preparing registry pre-state with " + fn + " failed"))
		}
		s = fin[0]
		s.frames = nil
	}
	switch {
	case pre == "empty":
		run("Clear", nil)
	case len(pre) > 6 && pre[:6] == "minus:":
		run("Remove", []Value{&StringV{B: ConstBytes(pre[6:])}})
	}
	s.acc, s.lockEvs, s.locks = nil, nil, nil
	return s
}

func (c *Ctx) regArgs(s *State, op regOp) ([]Value, *SVal, Value) {
	switch op.Op {
	case "Registry":
		if op.Kind == "nonservice" {
			return []Value{&IfaceV{T: types.Typ[types.Int], V: CI(7)}}, nil, nil
		}
		T := c.w.typeOf("codec", svcTypeByAlg[op.Name])
		if T == nil {
			panic(bindErr("service type for " + op.Name + " not found"))
		}
		obj := &Ptr{Obj: s.newObj(&Obj{Kind: kCell, Val: c.e().zero(T)})}
		v := &IfaceV{T: types.NewPointer(T), V: obj}
		return []Value{v}, nil, v
	case "Get", "Remove":
		if op.Name == "?" {
			g := &Gen{w: c.w, sc: c.sc}
			t := g.symText(s, "name", 8)
			return []Value{&StringV{B: t.S}}, t, nil
		}
		return []Value{&StringV{B: ConstBytes(op.Name)}}, nil, nil
	}
	return nil, nil, nil
}

func regReplaySteps(pre string, ops []regOp, names []string) []map[string]any {
	var pr []map[string]any
	switch {
	case pre == "empty":
		pr = append(pr, step("op", "Clear"))
	case len(pre) > 6 && pre[:6] == "minus:":
		pr = append(pr, step("op", "Remove", "alg", pre[6:]))
	}
	for i, o := range ops {
		n := o.Name
		if n == "?" {
			n = names[i]
		}
		pr = append(pr, step("op", o.Op, "alg", n))
	}
	return []map[string]any{step("op", "registry", "ops", pr)}
}

func c19seq(c *Ctx, pre string, op regOp) {
	e := c.e()
	s := c.regPrepare(pre)
	before, ctxObj, _, ok := c.regState(s)
	if !ok {
		c.Inconclusive("registry object not recognised (checksumServiceContext / cache)")
		return
	}
	args, symName, newSvc := c.regArgs(s, op)
	fn := c.w.fn("codec." + op.Op)
	if fn == nil {
		c.Inconclusive("codec." + op.Op + " not found")
		return
	}
	e.pushCall(s, fn, args, nil)
	finals := e.Run(s)
	var regNames []string
	for n := range before {
		regNames = append(regNames, n)
	}
	sort.Strings(regNames)
	for _, fs := range finals {
		nameOf := func(val func(*Term) uint64) string {
			if symName != nil {
				return string(evalBytes(symName.S, val))
			}
			return op.Name
		}
		mk := func(what string) func(val func(*Term) uint64) *Violation {
			return func(val func(*Term) uint64) *Violation {
				return &Violation{Detail: fmt.Sprintf("%s from pre-state %s: %s", op, pre, what), Model: map[string]any{"name": nameOf(val)},
					Replay: &ReplayReq{Steps: regReplaySteps(pre, []regOp{op}, []string{nameOf(val)}), Judge: Judge{Kind: "registry_seq", Note: pre}}}
			}
		}
		if c.PathProblem(fs, op.String(), func(val func(*Term) uint64, msg string) *Violation {
			v := mk("panics: " + msg)(val)
			v.Obligation = "no-panic"
			return v
		}) {
			continue
		}
		after, ctxObj2, mapObj2, ok := c.regState(fs)
		if !ok || ctxObj2 != ctxObj {
			c.Prove(fs, "registry-object-intact", False, mk("the registry object was replaced or is unreadable"))
			continue
		}
		// on this path the symbolic name equals one of the registered names or none (the lookup fork decided)
		key := op.Name
		if symName != nil {
			key = ""
			for _, n := range regNames {
				if e.checkSat(fs, Not(strEqTerm(symName.S, ConstBytes(n)))) == "unsat" {
					key = n
				}
			}
			if key == "" {
				key = "\x00absent"
			}
		}
		// specification
		want := map[string]Value{}
		for k, v := range before {
			want[k] = v
		}
		var wantRet []any
		switch op.Op {
		case "Registry":
			_, present := before[op.Name]
			if op.Kind == "nonservice" {
				wantRet = []any{false}
			} else if present {
				wantRet = []any{false}
			} else {
				wantRet = []any{true}
				want[op.Name] = newSvc
			}
		case "Get":
			if v, present := before[key]; present {
				wantRet = []any{v, true}
			} else {
				wantRet = []any{nil, false}
			}
		case "Remove":
			delete(want, key)
		case "Clear":
			want = map[string]Value{}
		}
		// compare state
		okState := len(after) == len(want)
		for k, v := range want {
			if av, present := after[k]; !present || !sameIface(av, v) {
				okState = false
			}
		}
		c.Prove(fs, "post-state", B(okState), mk(fmt.Sprintf("the map afterwards holds %d entries, an atomic map would hold %d (or a different service object)", len(after), len(want))))
		// compare result
		okRet := true
		switch op.Op {
		case "Registry":
			t, isT := fs.ret.(*Term)
			okRet = isT && t == B(wantRet[0].(bool))
		case "Get":
			tv, isTuple := fs.ret.(TupleV)
			if !isTuple || len(tv) != 2 {
				okRet = false
				break
			}
			found, _ := tv[1].(*Term)
			okRet = found == B(wantRet[1].(bool))
			if wantRet[0] == nil {
				iv, _ := tv[0].(*IfaceV)
				okRet = okRet && iv != nil && iv.T == nil
			} else {
				okRet = okRet && sameIface(tv[0], wantRet[0].(Value))
			}
		}
		c.Prove(fs, "result", B(okRet), mk("the returned value differs from what an atomic map returns"))
		// layer 2: lock discipline
		c.lockDiscipline(fs, op, ctxObj, mapObj2, mk)
		c.Witness(fs, "sequential", func(val func(*Term) uint64) any {
			return map[string]any{"pre": pre, "op": op.String(), "name": nameOf(val), "entries_after": len(after)}
		})
	}
}

func (c *Ctx) lockDiscipline(fs *State, op regOp, ctxObj, mapObj int, mk func(string) func(val func(*Term) uint64) *Violation) {
	regObjs := c.registryObjects()
	regObjs[ctxObj], regObjs[mapObj] = true, true
	// 1. every access to the registry with the lock held, writes in write mode
	bad := ""
	nShared := 0
	for _, a := range fs.acc {
		if !regObjs[a.Obj] {
			continue
		}
		nShared++
		if a.Lock == 0 {
			bad = fmt.Sprintf("the registry is accessed without the lock at %s", a.Site)
		} else if a.Write && a.Lock != -1 {
			bad = fmt.Sprintf("the registry is written under a read lock at %s", a.Site)
		}
	}
	// 1b. any other package-level object that some registry operation writes (e.g. the variable holding the
	// registry pointer, a memo of the last lookup) is shared mutable state too: every access to it, by every
	// operation, must be under the lock
	for _, a := range fs.acc {
		if regObjs[a.Obj] {
			continue
		}
		if w := c.sharedWritten()[a.Obj]; w != "" {
			nShared++
			if a.Lock == 0 {
				bad = fmt.Sprintf("a package-level object that %s is accessed without the lock at %s", w, a.Site)
			} else if a.Write && a.Lock != -1 {
				bad = fmt.Sprintf("a package-level object is written under a read lock at %s", a.Site)
			}
		}
	}
	// accesses through the map created by Clear (a fresh object stored into the registry) are writes to ctxObj, covered above
	stress := func(what string) func(val func(*Term) uint64) *Violation {
		return func(val func(*Term) uint64) *Violation {
			return &Violation{Detail: fmt.Sprintf("%s: %s", op, what),
				Replay: &ReplayReq{Steps: []map[string]any{step("op", "registry", "threads", 8, "n", 4000)}, Judge: Judge{Kind: "anomaly", Step: 0, Note: "race"}}}
		}
	}
	c.Prove(fs, "shared-access-under-lock", B(bad == ""), stress(bad))
	// 2. mutex free at return, lock events well-formed
	held := false
	for _, v := range fs.locks {
		if v != 0 {
			held = true
		}
	}
	c.Prove(fs, "mutex-free-at-return", B(!held), func(val func(*Term) uint64) *Violation {
		// a second call of any locking operation then blocks for ever: replayed as a sequential script under a time limit
		return &Violation{Detail: fmt.Sprintf("%s: the mutex is still held when the operation returns", op),
			Replay: &ReplayReq{Steps: append(regReplaySteps("init", []regOp{op, op, {Op: "Clear"}}, []string{"CRC16", "CRC16", ""})), Judge: Judge{Kind: "abort"}}}
	})
	okEv := true
	acquires := 0
	for _, ev := range fs.lockEvs {
		if !ev.OK {
			okEv = false
		}
		if ev.Op == "Lock" || ev.Op == "RLock" {
			acquires++
		}
	}
	c.Prove(fs, "lock-events-well-formed", B(okEv), mk("a mutex operation is applied in a state where it deadlocks or is fatal"))
	// 3. single critical section containing all shared accesses (=> atomic by reduction)
	if nShared > 0 {
		if acquires > 1 {
			// not closed by reduction: layer 3 decides
			c.res.Imprecise = unionStr(c.res.Imprecise, []string{fmt.Sprintf("%s has %d critical sections: atomicity is decided by the explicit interleaving check (layer 3)", op.Op, acquires)})
		}
		c.Prove(fs, "at-most-one-critical-section-or-layer3", B(acquires <= 1 || c19Layer3Covers(op.Op)), mk("the operation's shared accesses are split over several critical sections"))
	}
}

// sharedWritten: pre-existing objects (outside the registry struct and its map) written by some registry
// operation, found by running each operation once from a state in which it has something to do.
func (c *Ctx) sharedWritten() map[int]string {
	if c.w.sharedW != nil {
		return c.w.sharedW
	}
	out := map[int]string{}
	c.w.sharedW = out
	e := c.e()
	regObjs := c.registryObjects()
	for _, t := range []struct {
		pre string
		op  regOp
	}{{"minus:CRC16", regOp{Op: "Registry", Name: "CRC16"}}, {"init", regOp{Op: "Registry", Name: "CRC16"}}, {"init", regOp{Op: "Get", Name: "CRC16"}},
		{"minus:CRC16", regOp{Op: "Get", Name: "CRC16"}}, {"init", regOp{Op: "Remove", Name: "CRC16"}}, {"init", regOp{Op: "Clear"}}} {
		fn := c.w.fn("codec." + t.op.Op)
		if fn == nil {
			continue
		}
		s := c.regPrepare(t.pre)
		args, _, _ := c.regArgs(s, t.op)
		e.pushCall(s, fn, args, nil)
		for _, fs := range e.Run(s) {
			for _, a := range fs.acc {
				if a.Write && !regObjs[a.Obj] && out[a.Obj] == "" {
					out[a.Obj] = fmt.Sprintf("%s writes at %s", t.op.Op, a.Site)
				}
			}
		}
	}
	return out
}
