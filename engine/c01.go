package main

// C01 - Encode then Decode returns the same message (canonical domain).

import "fmt"

func init() {
	drivers["C01"] = &Driver{Prop: "C01", Level: "model_checking",
		Explain: "bounded symbolic execution of the real Encode and Decode of every codec type (go/ssa -> SMT bit-vectors/arrays); per field the query pc AND NOT(decoded == original) is discharged by z3; computed frame fields are compared against reference length/checksum",
		Assume:  []string{"standard-library contracts listed under trusted_base", "list shapes, prefixed-text length P and key choices as stated in bounds; longer lists/text are outside the claim", "pinned schema under /verif/schema describes the canonical domain (field widths, pads)"},
		Bounds: func(tier string) map[string]any {
			if tier == "thorough" {
				return map[string]any{"list_lengths": "uniform 0,1,2,3 + mixed shapes", "prefixed_text_max": 12, "keys": "all 226, frame x every inner extension key", "fixed_text": "every length 0..W, every content"}
			}
			return map[string]any{"list_lengths": "uniform 0,1,2", "prefixed_text_max": 4, "keys": "all 226 own keys, first inner key", "fixed_text": "every length 0..W, every content"}
		},
		Items: func(c *Ctx) []Item {
			ns := []int{0, 1, 2}
			if c.thorough() {
				ns = []int{0, 1, 2, 3}
			}
			var items []Item
			for _, mc := range c.msgCases(ns, c.thorough(), c.thorough()) {
				mc := mc
				items = append(items, Item{ID: mc.ID(), Run: func(c *Ctx) { c01(c, mc) }})
			}
			return items
		}}
}

func (h *harness) roundTripSteps(val func(*Term) uint64) []map[string]any {
	return []map[string]any{
		step("op", "newbuf", "buf", "b", "hex", hexOf(evalTerms(h.prior, val))),
		step("op", "newmsg", "msg", "m", "module", h.mc.Mod, "type", h.mc.Typ, "value", h.g.Concretize(h.m, val)),
		step("op", "encode", "msg", "m", "buf", "b"),
		step("op", "newmsg", "msg", "d", "module", h.mc.Mod, "type", h.mc.Typ),
		step("op", "decode", "msg", "d", "buf", "b"),
	}
}

func (h *harness) computedNames() []string {
	var out []string
	for _, f := range h.c.sc.Mods[h.mc.Mod].Types[h.mc.Typ].Fields {
		if f.Kind == "computed_len" || f.Kind == "computed_sum" {
			out = append(out, f.Go)
		}
	}
	return out
}

func c01(c *Ctx, mc MsgCase) {
	h := c.newHarness(mc, "canon", 0)
	e := c.e()
	s := h.s
	bufPtr := &Ptr{Obj: h.bufID}
	e.pushCall(s, h.enc, []Value{h.mPtr, bufPtr}, nil)
	encFinals := e.Run(s)
	fi := c.frameInfo(mc.Mod, mc.Typ)
	for _, fs := range encFinals {
		if c.PathProblem(fs, "Encode", func(val func(*Term) uint64, msg string) *Violation {
			return &Violation{Obligation: "encode-no-panic", Detail: "Encode panics on a canonical value: " + msg,
				Replay: &ReplayReq{Steps: h.roundTripSteps(val)[:3], Judge: Judge{Kind: "panic"}}}
		}) {
			continue
		}
		if h.enc.Signature.Results().Len() > 0 && !isNilErr(fs.ret) {
			c.Prove(fs, "encode-succeeds", False, func(val func(*Term) uint64) *Violation {
				return &Violation{Detail: "Encode returns an error on a canonical value",
					Replay: &ReplayReq{Steps: h.roundTripSteps(val)[:3], Judge: Judge{Kind: "err_nonnil", Step: 2}}}
			})
			continue
		}
		d := h.freshReceiver(fs)
		e.pushCall(fs, h.dec, []Value{d, bufPtr}, nil)
		for _, ds := range e.Run(fs) {
			if c.PathProblem(ds, "Decode", func(val func(*Term) uint64, msg string) *Violation {
				return &Violation{Obligation: "decode-no-panic", Detail: "Decode panics on the encoding of a canonical value: " + msg,
					Replay: &ReplayReq{Steps: h.roundTripSteps(val), Judge: Judge{Kind: "panic"}}}
			}) {
				continue
			}
			if !isNilErr(ds.ret) {
				c.Prove(ds, "decode-succeeds", False, func(val func(*Term) uint64) *Violation {
					return &Violation{Detail: "Decode rejects the encoding of a canonical value",
						Replay: &ReplayReq{Steps: h.roundTripSteps(val), Judge: Judge{Kind: "err_nonnil", Step: 4}}}
				})
				continue
			}
			c.Witness(ds, "round-trip path", func(val func(*Term) uint64) any {
				return map[string]any{"input": h.g.Concretize(h.m, val), "wire_hex": hexOf(evalBytes(ds.heap[h.bufID].B, val))}
			})
			expected := h.expectedFromWire(ds, SliceBytes(fs.heap[h.bufID].B, CI(int64(len(h.prior))), fs.heap[h.bufID].B.Len))
			got := h.g.Snapshot(ds, d, mc.Mod, mc.Typ)
			var goals []Goal
			h.g.EqualGoals(expected, got, "", &goals)
			ts := c.sc.Mods[mc.Mod].Types[mc.Typ]
			for _, gl := range goals {
				gl := gl
				c.Prove(ds, "field"+gl.Name, gl.T, func(val func(*Term) uint64) *Violation {
					v := &Violation{Detail: fmt.Sprintf("decoded field %s differs from the original", gl.Name), Model: map[string]any{"input": h.g.Concretize(h.m, val)}}
					steps := h.roundTripSteps(val)
					// computed frame fields get a concrete oracle on the observed bytes
					top := gl.Name
					if len(top) > 0 {
						top = top[1:]
					}
					if f := ts.Field(top); f != nil && fi != nil && (f.Kind == "computed_len" || f.Kind == "computed_sum") {
						k := "frame_len"
						if f.Kind == "computed_sum" {
							k = "frame_sum"
						}
						v.Replay = &ReplayReq{Steps: steps, Judge: Judge{Kind: k, Step: 2, Frame: fi}}
						return v
					}
					v.Replay = &ReplayReq{Steps: steps, Judge: Judge{Kind: "msg_ne", Step: 4, ExpectMsg: h.g.Concretize(expected, val), Ignore: h.computedNames()}}
					return v
				})
			}
			db := ds.heap[h.bufID]
			c.Prove(ds, "buffer-empty", Eq(unreadLen(db), CI(0)), func(val func(*Term) uint64) *Violation {
				return &Violation{Detail: "bytes left in the buffer after decoding a single encoded message",
					Replay: &ReplayReq{Steps: h.roundTripSteps(val), Judge: Judge{Kind: "buf_ne", Step: 4, ExpectHex: ""}}}
			})
		}
	}
}
