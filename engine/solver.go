package main

// SMT solver access (SMT-LIB2 over stdin/stdout).
//
// Main process: one persistent `z3 -in`; shared sub-terms are emitted once as define-fun at level 0 and
// persist; each query is push / asserts / check-sat / pop with a short time limit. z3's incremental core
// is fast on the many small queries of path exploration but can be orders of magnitude slower than its
// default strategy on a large bit-vector/array goal, and does not always honour its timeout. Therefore a
// query that comes back `unknown` (or makes the process overrun a wall-clock watchdog) is re-solved by a
// *fresh* z3 process that receives only the cone of definitions of that query and no push/pop, so that
// the full (non-incremental) strategy applies, under the full time limit.

import (
	"bufio"
	"fmt"
	"io"
	"os"
	"os/exec"
	"strconv"
	"strings"
	"time"
)

type proc struct {
	cmd   *exec.Cmd
	in    io.WriteCloser
	lines chan string
}

func startProc(bin string, args ...string) *proc {
	cmd := exec.Command(bin, args...)
	in, _ := cmd.StdinPipe()
	o, _ := cmd.StdoutPipe()
	cmd.Stderr = cmd.Stdout
	if err := cmd.Start(); err != nil {
		panic(err)
	}
	p := &proc{cmd: cmd, in: in, lines: make(chan string, 1024)}
	go func() {
		rd := bufio.NewReaderSize(o, 1<<20)
		for {
			line, err := rd.ReadString('\n')
			if line != "" {
				p.lines <- line
			}
			if err != nil {
				close(p.lines)
				return
			}
		}
	}()
	return p
}

func (p *proc) kill() {
	if p == nil || p.cmd == nil {
		return
	}
	p.in.Close()
	p.cmd.Process.Kill()
	go p.cmd.Wait()
	p.cmd = nil
}

// readLine returns the next output line, or ok=false on timeout / process end.
func (p *proc) readLine(d time.Duration) (string, bool) {
	select {
	case l, ok := <-p.lines:
		return l, ok
	case <-time.After(d):
		return "", false
	}
}

type Solver struct {
	Bin       string
	main      *proc
	alt       *proc // fresh process holding the model of the last fallback query
	defined   map[int]bool
	open      bool
	Queries   int
	Sat       int
	Unsat     int
	Unknown   int
	Errors    int
	Fallbacks int
	Time      time.Duration
	MaxQuery  time.Duration
	log       io.Writer
	lastSat   bool
	useAlt    bool
	altDef    map[int]bool
	timeoutMs int
	fastMs    int
	nDefs     int
}

func NewSolver(bin string, timeoutMs int) *Solver {
	fast := 3000
	if timeoutMs > 60000 {
		fast = 10000
	}
	if timeoutMs < fast {
		fast = timeoutMs
	}
	s := &Solver{Bin: bin, timeoutMs: timeoutMs, fastMs: fast}
	s.start()
	return s
}

func (s *Solver) start() {
	s.main = startProc(s.Bin, "-in")
	s.defined = map[int]bool{}
	s.open = false
	s.lastSat = false
	s.nDefs = 0
	if p := os.Getenv("VF_SMTLOG"); p != "" && s.log == nil {
		f, _ := os.Create(p)
		s.log = f
	}
	s.send("(set-option :produce-models true)")
	s.send(fmt.Sprintf("(set-option :timeout %d)", s.fastMs))
}

func (s *Solver) Restart() {
	s.main.kill()
	s.start()
}

func (s *Solver) Close() {
	s.main.kill()
	s.alt.kill()
	s.alt = nil
}

func (s *Solver) send(x string) {
	if s.log != nil {
		fmt.Fprintln(s.log, x)
	}
	io.WriteString(s.main.in, x+"\n")
}

func defLine(x *Term) string {
	switch x.Op {
	case "const", "true", "false":
		return ""
	case "var":
		return fmt.Sprintf("(declare-const %s %s)", x.Name, sortOf(x))
	}
	return fmt.Sprintf("(define-fun t%d () %s %s)", x.id, sortOf(x), body(x))
}

// emitDefs sends the definitions of t's cone that are not yet in `defined` (post-order, iterative).
func emitDefs(t *Term, defined map[int]bool, emit func(string)) int {
	if defined[t.id] {
		return 0
	}
	n := 0
	type fr struct {
		t *Term
		i int
	}
	st := []fr{{t, 0}}
	for len(st) > 0 {
		top := &st[len(st)-1]
		if defined[top.t.id] {
			st = st[:len(st)-1]
			continue
		}
		if top.i < len(top.t.Args) {
			a := top.t.Args[top.i]
			top.i++
			if !defined[a.id] {
				st = append(st, fr{a, 0})
			}
			continue
		}
		x := top.t
		defined[x.id] = true
		n++
		if l := defLine(x); l != "" {
			emit(l)
		}
		st = st[:len(st)-1]
	}
	return n
}

// readAnswer waits for sat/unsat/unknown from p; a watchdog turns a silent process into "unknown".
func (s *Solver) readAnswer(p *proc, limit time.Duration) (string, bool) {
	deadline := time.Now().Add(limit)
	r := "unknown"
	for {
		left := time.Until(deadline)
		if left <= 0 {
			return "unknown", false
		}
		line, ok := p.readLine(left)
		if !ok {
			return "unknown", false
		}
		line = strings.TrimSpace(line)
		if line == "sat" || line == "unsat" || line == "unknown" || line == "timeout" {
			r = line
			if r == "timeout" {
				r = "unknown"
			}
			return r, true
		}
		if strings.HasPrefix(line, "(error") {
			s.Errors++
			fmt.Fprintln(os.Stderr, "SOLVER ERROR:", line)
			// keep reading: the check-sat answer still follows; the result is downgraded to unknown
			r2, alive := s.readAnswer(p, time.Until(deadline))
			_ = r2
			return "unknown", alive
		}
	}
}

// CheckFlat returns "sat", "unsat" or "unknown".
func (s *Solver) CheckFlat(assertions ...*Term) string {
	t0 := time.Now()
	s.lastSat, s.useAlt = false, false
	if s.alt != nil {
		s.alt.kill()
		s.alt = nil
	}
	if s.nDefs > 1500000 {
		s.Restart()
	}
	if s.open {
		s.send("(pop 1)")
		s.open = false
	}
	for _, a := range assertions {
		s.nDefs += emitDefs(a, s.defined, s.send)
	}
	s.send("(push 1)")
	s.open = true
	for _, a := range assertions {
		if a != True {
			s.send("(assert " + ref(a) + ")")
		}
	}
	s.send("(check-sat)")
	r, alive := s.readAnswer(s.main, time.Duration(s.fastMs)*time.Millisecond+5*time.Second)
	if !alive {
		// the process overran its own timeout (or died): replace it
		s.Errors++
		s.Restart()
	}
	if r == "unknown" {
		r = s.fallback(assertions)
	}
	s.Queries++
	switch r {
	case "sat":
		s.Sat++
	case "unsat":
		s.Unsat++
	default:
		s.Unknown++
	}
	s.lastSat = r == "sat"
	d := time.Since(t0)
	s.Time += d
	if d > s.MaxQuery {
		s.MaxQuery = d
	}
	if d > time.Second && os.Getenv("VF_DEBUG") != "" {
		fmt.Fprintf(os.Stderr, "SLOW QUERY %.1fs result=%s assertions=%d fallback=%v last=%s\n", d.Seconds(), r, len(assertions), s.useAlt || s.Fallbacks > 0, dumpTerm(assertions[len(assertions)-1], 5))
	}
	return r
}

// Check is kept as an alias of CheckFlat.
func (s *Solver) Check(assertions ...*Term) string { return s.CheckFlat(assertions...) }

// fallback: fresh process, only this query's cone, no push/pop, full time limit.
func (s *Solver) fallback(assertions []*Term) string {
	s.Fallbacks++
	p := startProc(s.Bin, "-in")
	var sb strings.Builder
	sb.WriteString("(set-option :produce-models true)\n")
	fmt.Fprintf(&sb, "(set-option :timeout %d)\n", s.timeoutMs)
	def := map[int]bool{}
	for _, a := range assertions {
		emitDefs(a, def, func(l string) { sb.WriteString(l); sb.WriteByte('\n') })
	}
	for _, a := range assertions {
		if a != True {
			sb.WriteString("(assert " + ref(a) + ")\n")
		}
	}
	sb.WriteString("(check-sat)\n")
	if s.log != nil {
		fmt.Fprintln(s.log, "; ---- fallback query in a fresh process")
	}
	go io.WriteString(p.in, sb.String())
	r, alive := s.readAnswer(p, time.Duration(s.timeoutMs)*time.Millisecond+10*time.Second)
	if !alive || r != "sat" {
		p.kill()
		return r
	}
	s.alt, s.altDef, s.useAlt = p, def, true
	return r
}

// Done releases the model of the last sat answer.
func (s *Solver) Done() {
	s.lastSat = false
	if s.alt != nil {
		s.alt.kill()
		s.alt = nil
	}
	s.useAlt = false
}

// Value evaluates a bit-vector or Bool term in the current model (after a sat answer, before Done).
func (s *Solver) Value(t *Term) (uint64, bool) {
	if !s.lastSat {
		return 0, false
	}
	if t.IsConst() {
		return t.Val, true
	}
	if t == True {
		return 1, true
	}
	if t == False {
		return 0, true
	}
	p, defined := s.main, s.defined
	if s.useAlt {
		p, defined = s.alt, s.altDef
	}
	expr, ok := inlineExpr(t, defined)
	if !ok {
		return 0, false
	}
	cmd := "(get-value (" + expr + "))"
	if s.log != nil && !s.useAlt {
		fmt.Fprintln(s.log, cmd)
	}
	io.WriteString(p.in, cmd+"\n")
	return readValue(p)
}

// inlineExpr renders t with let-bindings for the sub-terms the solver has no definition for.
// ok=false when t mentions a variable the solver never saw (its value is arbitrary).
func inlineExpr(t *Term, defined map[int]bool) (string, bool) {
	if defined[t.id] {
		return ref(t), true
	}
	seen := map[int]bool{}
	var order, free []*Term
	undeclared := false
	var walk func(x *Term)
	walk = func(x *Term) {
		if defined[x.id] || seen[x.id] || x.Op == "const" || x.Op == "true" || x.Op == "false" {
			return
		}
		seen[x.id] = true
		if x.Op == "var" {
			// a variable the solver never saw: its value is arbitrary; it is bound to zero so that the rest of
			// the term (which may well be determined by declared variables) still evaluates under the model
			undeclared = true
			free = append(free, x)
			return
		}
		for _, a := range x.Args {
			walk(a)
		}
		order = append(order, x)
	}
	walk(t)
	var sb strings.Builder
	if undeclared {
		for _, x := range free {
			switch {
			case x.W > 0:
				fmt.Fprintf(&sb, "(let ((%s (_ bv0 %d))) ", x.Name, x.W)
			case x.W == 0:
				fmt.Fprintf(&sb, "(let ((%s false)) ", x.Name)
			default:
				fmt.Fprintf(&sb, "(let ((%s ((as const (Array (_ BitVec 64) (_ BitVec 8))) #x00))) ", x.Name)
			}
		}
	}
	for _, x := range order {
		fmt.Fprintf(&sb, "(let ((t%d %s)) ", x.id, body(x))
	}
	sb.WriteString(ref(t))
	for range order {
		sb.WriteString(")")
	}
	for range free {
		sb.WriteString(")")
	}
	return sb.String(), true
}

func readValue(p *proc) (uint64, bool) {
	var sb strings.Builder
	depth, started := 0, false
	for {
		line, ok := p.readLine(30 * time.Second)
		if !ok {
			return 0, false
		}
		sb.WriteString(line)
		for _, ch := range line {
			if ch == '(' {
				depth++
				started = true
			} else if ch == ')' {
				depth--
			}
		}
		if started && depth <= 0 {
			break
		}
	}
	txt := strings.TrimSpace(sb.String())
	if strings.HasPrefix(txt, "(error") {
		return 0, false
	}
	txt = strings.TrimRight(txt, ") \n")
	i := strings.LastIndexAny(txt, " \n(")
	tok := txt[i+1:]
	switch {
	case tok == "true":
		return 1, true
	case tok == "false":
		return 0, true
	case strings.HasPrefix(tok, "#x"):
		v, err := strconv.ParseUint(tok[2:], 16, 64)
		return v, err == nil
	case strings.HasPrefix(tok, "#b"):
		v, err := strconv.ParseUint(tok[2:], 2, 64)
		return v, err == nil
	}
	if j := strings.LastIndex(txt, "(_ bv"); j >= 0 {
		f := strings.Fields(txt[j+5:])
		if len(f) > 0 {
			v, err := strconv.ParseUint(f[0], 10, 64)
			return v, err == nil
		}
	}
	return 0, false
}
