package main

// One persistent SMT solver process (SMT-LIB2 over stdin/stdout) with push/pop.
// Shared sub-terms are emitted once as define-fun at level 0 before the push.

import (
	"bufio"
	"fmt"
	"io"
	"os"
	"os/exec"
	"strconv"
	"strings"
	"time"
)

type Solver struct {
	Bin       string
	cmd       *exec.Cmd
	in        io.WriteCloser
	out       *bufio.Reader
	defined   map[int]bool
	defLevel  map[int]int // term id -> push level at which it was declared/defined
	levelDefs [][]int     // ids defined at each push level (index = level)
	stack     []*Term     // assertion at each push level (level i+1 holds stack[i])
	flatOpen  bool
	Queries   int
	Sat       int
	Unsat     int
	Unknown   int
	Errors    int
	Time      time.Duration
	MaxQuery  time.Duration
	log       io.Writer
	lastSat   bool
	timeoutMs int
	nDefs     int
}

func NewSolver(bin string, timeoutMs int) *Solver {
	s := &Solver{Bin: bin, timeoutMs: timeoutMs}
	s.start()
	return s
}

func (s *Solver) start() {
	args := []string{"-in"}
	if strings.Contains(s.Bin, "cvc5") {
		args = []string{"--incremental", "--produce-models", fmt.Sprintf("--tlimit-per=%d", s.timeoutMs)}
	}
	cmd := exec.Command(s.Bin, args...)
	in, _ := cmd.StdinPipe()
	o, _ := cmd.StdoutPipe()
	cmd.Stderr = cmd.Stdout
	if err := cmd.Start(); err != nil {
		panic(err)
	}
	s.cmd, s.in, s.out = cmd, in, bufio.NewReaderSize(o, 1<<20)
	s.defined = map[int]bool{}
	s.defLevel = map[int]int{}
	s.levelDefs = [][]int{nil}
	s.stack = nil
	s.flatOpen = false
	s.lastSat = false
	s.nDefs = 0
	if p := os.Getenv("VF_SMTLOG"); p != "" && s.log == nil {
		f, _ := os.Create(p)
		s.log = f
	}
	if strings.Contains(s.Bin, "cvc5") {
		s.send("(set-logic ALL)")
	} else {
		s.send("(set-option :produce-models true)")
		s.send(fmt.Sprintf("(set-option :timeout %d)", s.timeoutMs))
	}
}

// Restart drops all definitions (keeps the process table small on long runs).
func (s *Solver) Restart() {
	s.Close()
	s.start()
}

func (s *Solver) Close() {
	if s.cmd != nil {
		s.in.Close()
		s.cmd.Process.Kill()
		s.cmd.Wait()
		s.cmd = nil
	}
}

func (s *Solver) send(x string) {
	if s.log != nil {
		fmt.Fprintln(s.log, x)
	}
	io.WriteString(s.in, x+"\n")
}

func (s *Solver) define(t *Term, lv int) {
	if s.defined[t.id] {
		return
	}
	// iterative post-order to avoid deep recursion on long chains
	type fr struct {
		t *Term
		i int
	}
	st := []fr{{t, 0}}
	for len(st) > 0 {
		top := &st[len(st)-1]
		if s.defined[top.t.id] {
			st = st[:len(st)-1]
			continue
		}
		if top.i < len(top.t.Args) {
			a := top.t.Args[top.i]
			top.i++
			if !s.defined[a.id] {
				st = append(st, fr{a, 0})
			}
			continue
		}
		x := top.t
		s.defined[x.id] = true
		s.defLevel[x.id] = lv
		for len(s.levelDefs) <= lv {
			s.levelDefs = append(s.levelDefs, nil)
		}
		s.levelDefs[lv] = append(s.levelDefs[lv], x.id)
		s.nDefs++
		switch x.Op {
		case "const", "true", "false":
		case "var":
			s.send(fmt.Sprintf("(declare-const %s %s)", x.Name, sortOf(x)))
		default:
			s.send(fmt.Sprintf("(define-fun t%d () %s %s)", x.id, sortOf(x), body(x)))
		}
		st = st[:len(st)-1]
	}
}

// Check returns "sat", "unsat" or "unknown" (timeouts and solver errors are "unknown").
// The assertion list is kept on the solver's push/pop stack: consecutive queries that share a prefix
// (the path condition of a depth-first exploration) only send what changed.
func (s *Solver) Check(assertions ...*Term) string {
	t0 := time.Now()
	s.lastSat = false
	if s.nDefs > 2000000 {
		s.Restart()
	}
	if s.flatOpen {
		s.send("(pop 1)")
		s.flatOpen = false
	}
	var as []*Term
	for _, a := range assertions {
		if a != True {
			as = append(as, a)
		}
	}
	common := 0
	for common < len(s.stack) && common < len(as) && s.stack[common] == as[common] {
		common++
	}
	if k := len(s.stack) - common; k > 0 {
		s.send(fmt.Sprintf("(pop %d)", k))
		s.stack = s.stack[:common]
		for lv := common + 1; lv < len(s.levelDefs); lv++ {
			for _, id := range s.levelDefs[lv] {
				delete(s.defLevel, id)
				delete(s.defined, id)
			}
			s.levelDefs[lv] = s.levelDefs[lv][:0]
		}
	}
	// large new terms (goals, reference renderings) are defined once at level 0, where they persist;
	// small increments (branch conditions) are defined inside the stack
	if n := s.countUndefined(as[common:], 300); n >= 300 {
		if len(s.stack) > 0 {
			s.send(fmt.Sprintf("(pop %d)", len(s.stack)))
			s.stack = s.stack[:0]
			for lv := 1; lv < len(s.levelDefs); lv++ {
				for _, id := range s.levelDefs[lv] {
					delete(s.defLevel, id)
					delete(s.defined, id)
				}
				s.levelDefs[lv] = s.levelDefs[lv][:0]
			}
		}
		common = 0
		for _, a := range as {
			s.define(a, 0)
		}
	}
	for _, a := range as[common:] {
		s.send("(push 1)")
		s.define(a, len(s.stack)+1)
		s.stack = append(s.stack, a)
		s.send("(assert " + ref(a) + ")")
	}
	s.send("(check-sat)")
	r := "unknown"
	for {
		line, err := s.out.ReadString('\n')
		if err != nil {
			s.Errors++
			s.start()
			s.Queries++
			s.Unknown++
			s.Time += time.Since(t0)
			return "unknown"
		}
		line = strings.TrimSpace(line)
		if line == "sat" || line == "unsat" || line == "unknown" || line == "timeout" {
			r = line
			if r == "timeout" {
				r = "unknown"
			}
			break
		}
		if strings.HasPrefix(line, "(error") {
			s.Errors++
			fmt.Fprintln(os.Stderr, "SOLVER ERROR:", line)
			r = "unknown"
			continue
		}
	}
	s.Queries++
	switch r {
	case "sat":
		s.Sat++
	case "unsat":
		s.Unsat++
	default:
		s.Unknown++
	}
	s.lastSat = r == "sat"
	d := time.Since(t0)
	s.Time += d
	if d > s.MaxQuery {
		s.MaxQuery = d
	}
	return r
}

// CheckFlat: all definitions at level 0 (they persist), the assertions inside one push level.
func (s *Solver) CheckFlat(assertions ...*Term) string {
	t0 := time.Now()
	s.lastSat = false
	if s.nDefs > 1500000 {
		s.Restart()
	}
	if len(s.stack) > 0 {
		s.send(fmt.Sprintf("(pop %d)", len(s.stack)))
		s.stack = s.stack[:0]
		for lv := 1; lv < len(s.levelDefs); lv++ {
			for _, id := range s.levelDefs[lv] {
				delete(s.defLevel, id)
				delete(s.defined, id)
			}
			s.levelDefs[lv] = s.levelDefs[lv][:0]
		}
	}
	if s.flatOpen {
		s.send("(pop 1)")
		s.flatOpen = false
	}
	for _, a := range assertions {
		s.define(a, 0)
	}
	s.send("(push 1)")
	s.flatOpen = true
	for _, a := range assertions {
		if a != True {
			s.send("(assert " + ref(a) + ")")
		}
	}
	s.send("(check-sat)")
	r := s.readAnswer()
	s.lastSat = r == "sat"
	d := time.Since(t0)
	s.Time += d
	if d > s.MaxQuery {
		s.MaxQuery = d
	}
	return r
}

func (s *Solver) readAnswer() string {
	r := "unknown"
	for {
		line, err := s.out.ReadString('\n')
		if err != nil {
			s.Errors++
			s.start()
			s.Queries++
			s.Unknown++
			return "unknown"
		}
		line = strings.TrimSpace(line)
		if line == "sat" || line == "unsat" || line == "unknown" || line == "timeout" {
			r = line
			if r == "timeout" {
				r = "unknown"
			}
			break
		}
		if strings.HasPrefix(line, "(error") {
			s.Errors++
			fmt.Fprintln(os.Stderr, "SOLVER ERROR:", line)
			r = "unknown"
			continue
		}
	}
	s.Queries++
	switch r {
	case "sat":
		s.Sat++
	case "unsat":
		s.Unsat++
	default:
		s.Unknown++
	}
	return r
}

// countUndefined counts terms reachable from ts that are not defined yet (stops at limit).
func (s *Solver) countUndefined(ts []*Term, limit int) int {
	seen := map[int]bool{}
	n := 0
	var st []*Term
	st = append(st, ts...)
	for len(st) > 0 && n < limit {
		t := st[len(st)-1]
		st = st[:len(st)-1]
		if seen[t.id] || s.defined[t.id] {
			continue
		}
		seen[t.id] = true
		n++
		st = append(st, t.Args...)
	}
	return n
}

// Done releases the model of the last sat answer.
func (s *Solver) Done() {
	s.lastSat = false
}

// Value evaluates a bit-vector or Bool term in the current model (after a sat answer, before Done).
func (s *Solver) Value(t *Term) (uint64, bool) {
	if !s.lastSat {
		return 0, false
	}
	if t.IsConst() {
		return t.Val, true
	}
	if t == True {
		return 1, true
	}
	if t == False {
		return 0, true
	}
	if !s.defined[t.id] {
		// defining needs level 0: not possible inside the push; use an inline let-free expansion
		return s.valueInline(t)
	}
	s.send("(get-value (" + ref(t) + "))")
	return s.readValue()
}

func (s *Solver) valueInline(t *Term) (uint64, bool) {
	// Expand the term as a tree with let-bindings for undefined sub-terms.
	var sb strings.Builder
	seen := map[int]bool{}
	var order []*Term
	var walk func(x *Term)
	walk = func(x *Term) {
		if s.defined[x.id] || seen[x.id] || x.Op == "const" || x.Op == "true" || x.Op == "false" {
			return
		}
		if x.Op == "var" {
			return // undeclared variable: unconstrained, caller treats as 0
		}
		seen[x.id] = true
		for _, a := range x.Args {
			walk(a)
		}
		order = append(order, x)
	}
	walk(t)
	// any undeclared var makes the value arbitrary: substitute zero
	undeclared := false
	var chk func(x *Term)
	vis := map[int]bool{}
	chk = func(x *Term) {
		if vis[x.id] {
			return
		}
		vis[x.id] = true
		if x.Op == "var" && !s.defined[x.id] {
			undeclared = true
		}
		if !s.defined[x.id] {
			for _, a := range x.Args {
				chk(a)
			}
		}
	}
	chk(t)
	if undeclared {
		return 0, false
	}
	for _, x := range order {
		fmt.Fprintf(&sb, "(let ((t%d %s)) ", x.id, body(x))
	}
	sb.WriteString(ref(t))
	for range order {
		sb.WriteString(")")
	}
	s.send("(get-value (" + sb.String() + "))")
	return s.readValue()
}

func (s *Solver) readValue() (uint64, bool) {
	// answer: ((<expr> <value>)) possibly spanning lines; read until parentheses balance
	var sb strings.Builder
	depth, started := 0, false
	for {
		line, err := s.out.ReadString('\n')
		if err != nil {
			return 0, false
		}
		sb.WriteString(line)
		for _, ch := range line {
			if ch == '(' {
				depth++
				started = true
			} else if ch == ')' {
				depth--
			}
		}
		if started && depth <= 0 {
			break
		}
	}
	txt := strings.TrimSpace(sb.String())
	if strings.HasPrefix(txt, "(error") {
		return 0, false
	}
	txt = strings.TrimRight(txt, ") \n")
	i := strings.LastIndexAny(txt, " \n(")
	tok := txt[i+1:]
	switch {
	case tok == "true":
		return 1, true
	case tok == "false":
		return 0, true
	case strings.HasPrefix(tok, "#x"):
		v, err := strconv.ParseUint(tok[2:], 16, 64)
		return v, err == nil
	case strings.HasPrefix(tok, "#b"):
		v, err := strconv.ParseUint(tok[2:], 2, 64)
		return v, err == nil
	}
	// (_ bvN w)
	if j := strings.LastIndex(txt, "(_ bv"); j >= 0 {
		f := strings.Fields(txt[j+5:])
		if len(f) > 0 {
			v, err := strconv.ParseUint(f[0], 10, 64)
			return v, err == nil
		}
	}
	return 0, false
}
