package main

// Symbolic message values driven by the pinned schema: generation (Nondet), materialisation on the
// engine heap, read-back (snapshot), deep equality goals, and concretisation under a model.

import (
	"encoding/hex"
	"fmt"
	"go/types"
	"strings"
)

type SVal struct {
	K    byte // 'i' scalar, 's' text, 'l' list, 'o' object, 'n' nil
	T    *Term
	S    *Bytes
	SMax int
	L    []*SVal
	Mod  string
	Typ  string
	F    []*SVal // per schema field of Typ
	Obj  int     // heap object the value was read from / materialised to (objects, lists)
}

type Gen struct {
	w        *World
	sc       *Schema
	Dom      string // "canon" | "wide"
	P        int    // maximal length of prefixed text
	Slack    int    // extra length of fixed text in the wide domain
	ListLen  func(path string, f *FieldSpec) int
	KeyOf    func(tab *TableSpec, path string) int // index of the table entry to use; -1: nil body
	NilBody  bool
	pfx      string
	PLen     int  // >=0: prefixed text has exactly this many (symbolic) bytes
	NilParts bool // nested pointer parts are left absent
	// FixLen != nil: every text has the concrete length FixLen(maximal length) with symbolic content
	// (fallback when the code loops on a text length: reduced bound, stated in the evidence)
	FixLen func(maxLen int) int
}

func (g *Gen) e() *Engine { return g.w.e }

// symText: text of symbolic length 0..maxLen with array-backed content.
func (g *Gen) symText(s *State, name string, maxLen int) *SVal {
	e := g.e()
	if g.FixLen != nil && maxLen <= 4096 { // (longer texts stay symbolic: a concrete multi-gigabyte text is not an option)
		n := g.FixLen(maxLen)
		arr := ArrVar(e.freshName(name + "_arr"))
		vec := make([]*Term, n)
		for i := range vec {
			vec[i] = Select(arr, CI(int64(i)))
		}
		return &SVal{K: 's', S: VecBytes(vec), SMax: maxLen}
	}
	L := e.boundedVar(s, name+"_len", 0, int64(maxLen))
	arr := ArrVar(e.freshName(name + "_arr"))
	b := &Bytes{Len: L}
	b.At = func(i *Term) *Term { return Select(arr, i) }
	return &SVal{K: 's', S: b, SMax: maxLen}
}

func (g *Gen) fixText(s *State, name string, f *FieldSpec) *SVal {
	if g.Dom == "raw" {
		// the field's W wire bytes are arbitrary (any pad/content combination)
		v := make([]*Term, f.Width)
		for i := range v {
			v[i] = g.e().freshVar(name+"_raw", 8)
		}
		return &SVal{K: 's', S: VecBytes(v), SMax: f.Width}
	}
	if g.Dom == "wide" {
		return g.symText(s, name, f.Width+g.Slack)
	}
	v := g.symText(s, name, f.Width)
	if f.Width > 0 {
		pad := C(8, uint64(f.Pad))
		if f.Left {
			s.pc = append(s.pc, Or(Eq(v.S.Len, CI(0)), Not(Eq(v.S.At(CI(0)), pad))))
		} else {
			// last byte is not the pad: one implication per possible length (constant indices only)
			var cs []*Term
			for j := 0; j < f.Width; j++ {
				cs = append(cs, Implies(Eq(v.S.Len, CI(int64(j+1))), Not(Eq(v.S.At(CI(int64(j))), pad))))
			}
			s.pc = append(s.pc, And(cs...))
		}
	}
	return v
}

func constText(str string) *SVal { return &SVal{K: 's', S: ConstBytes(str), SMax: len(str)} }

// Object builds a symbolic value of type mod.tn.
func (g *Gen) Object(s *State, mod, tn, path string) *SVal {
	ms := g.sc.Mods[mod]
	ts := ms.Types[tn]
	if ts == nil {
		panic("schema has no type " + mod + "." + tn)
	}
	e := g.e()
	ov := &SVal{K: 'o', Mod: mod, Typ: tn, F: make([]*SVal, len(ts.Fields))}
	// discriminator choice first (fixes the key field)
	var bodyKeyField string
	var bodyKey any
	var bodyType string
	if bf := ts.BodyField(); bf != nil {
		tab := ms.Tables[bf.Table]
		idx := 0
		if g.KeyOf != nil {
			idx = g.KeyOf(tab, path)
		}
		if idx >= 0 {
			bodyKeyField, bodyKey, bodyType = bf.Key, tab.Entries[idx][0], tab.Entries[idx][1].(string)
		}
	}
	for i := range ts.Fields {
		f := &ts.Fields[i]
		nm := g.pfx + tn + "_" + f.Go
		fpath := path + "." + f.Go
		if f.Go == bodyKeyField && bodyKey != nil {
			switch kv := bodyKey.(type) {
			case string:
				ov.F[i] = constText(kv)
				ov.F[i].SMax = max(f.Width, len(kv))
			case float64:
				ov.F[i] = &SVal{K: 'i', T: C(typeWidth(f.Type), uint64(kv))}
			}
			continue
		}
		switch f.Kind {
		case "int", "float", "computed_len", "computed_sum":
			ov.F[i] = &SVal{K: 'i', T: e.freshVar(nm, typeWidth(f.Type))}
		case "fixstr":
			ov.F[i] = g.fixText(s, nm, f)
		case "pstr":
			if g.PLen > 64 {
				// long text of concrete length (size thresholds of bulk paths), capped by what the prefix can count;
				// array-backed content
				n := int64(g.PLen)
				if w := typeWidth(f.Prefix); w < 32 && n > int64(1)<<uint(w)-1 {
					n = int64(1)<<uint(w) - 1
				}
				arr := ArrVar(e.freshName(nm + "_long"))
				b := &Bytes{Len: CI(n)}
				b.At = func(i *Term) *Term { return Select(arr, i) }
				ov.F[i] = &SVal{K: 's', S: b, SMax: int(n)}
			} else if g.PLen >= 0 {
				vec := make([]*Term, g.PLen)
				for j := range vec {
					vec[j] = e.freshVar(nm+"_b", 8)
				}
				ov.F[i] = &SVal{K: 's', S: VecBytes(vec), SMax: g.PLen}
			} else {
				ov.F[i] = g.symText(s, nm, g.P)
			}
		case "list_basic", "list_fixstr", "list_pstr", "list_obj":
			n := 0
			if g.ListLen != nil {
				n = g.ListLen(fpath, f)
			}
			lv := &SVal{K: 'l'}
			for j := 0; j < n; j++ {
				en := fmt.Sprintf("%s_%d", nm, j)
				switch f.Kind {
				case "list_basic":
					lv.L = append(lv.L, &SVal{K: 'i', T: e.freshVar(en, typeWidth(f.Elem))})
				case "list_fixstr":
					lv.L = append(lv.L, g.fixText(s, en, f))
				case "list_pstr":
					lv.L = append(lv.L, g.symText(s, en, g.P))
				case "list_obj":
					lv.L = append(lv.L, g.Object(s, mod, f.Elem, fmt.Sprintf("%s[%d]", fpath, j)))
				}
			}
			ov.F[i] = lv
		case "nested":
			if g.NilParts && f.Ptr {
				ov.F[i] = &SVal{K: 'n'} // an absent nested part (the encoder is expected to cope: C17)
				break
			}
			ov.F[i] = g.Object(s, mod, f.Type, fpath)
		case "body":
			if bodyType == "" {
				ov.F[i] = &SVal{K: 'n'}
			} else {
				ov.F[i] = g.Object(s, mod, bodyType, fpath)
			}
		default:
			panic("field kind " + f.Kind)
		}
	}
	return ov
}

func structField(st *types.Struct, name string) int {
	for i := 0; i < st.NumFields(); i++ {
		if st.Field(i).Name() == name {
			return i
		}
	}
	return -1
}

type bindErr string

// Materialize places the value on the heap of s and returns the engine value of Go type T
// (struct value); use MaterializePtr for a pointer to a fresh object.
func (g *Gen) structValue(s *State, v *SVal) *StructV {
	T := g.w.typeOf(v.Mod, v.Typ)
	if T == nil {
		panic(bindErr("type " + v.Mod + "." + v.Typ + " does not exist in the tree"))
	}
	st, ok := T.Underlying().(*types.Struct)
	if !ok {
		panic(bindErr(v.Typ + " is not a struct"))
	}
	ts := g.sc.Mods[v.Mod].Types[v.Typ]
	sv := g.e().zero(T).(*StructV)
	for i := range ts.Fields {
		f := &ts.Fields[i]
		idx := structField(st, f.Go)
		if idx < 0 {
			panic(bindErr(fmt.Sprintf("%s.%s has no field %s", v.Mod, v.Typ, f.Go)))
		}
		sv.F[idx] = g.fieldValue(s, st.Field(idx).Type(), v.F[i], f)
	}
	return sv
}

func (g *Gen) MaterializePtr(s *State, v *SVal) *Ptr {
	sv := g.structValue(s, v)
	id := s.newObj(&Obj{Kind: kCell, Val: sv})
	v.Obj = id
	return &Ptr{Obj: id}
}

func (g *Gen) fieldValue(s *State, ft types.Type, v *SVal, f *FieldSpec) Value {
	switch v.K {
	case 'i':
		w, _, ok := width(ft)
		if !ok || w != v.T.W {
			panic(bindErr(fmt.Sprintf("field %s: Go type %s does not fit a %d-bit scalar", f.Go, ft, v.T.W)))
		}
		return v.T
	case 's':
		if !isString(ft) {
			panic(bindErr(fmt.Sprintf("field %s: Go type %s is not a string", f.Go, ft)))
		}
		return &StringV{B: v.S}
	case 'l':
		sl, ok := ft.Underlying().(*types.Slice)
		if !ok {
			panic(bindErr(fmt.Sprintf("field %s: Go type %s is not a slice", f.Go, ft)))
		}
		n := CI(int64(len(v.L)))
		if isByteElem(sl.Elem()) {
			vec := make([]*Term, len(v.L))
			for i, x := range v.L {
				vec[i] = x.T
			}
			id := s.newObj(&Obj{Kind: kBytes, B: VecBytes(vec), ET: sl.Elem()})
			v.Obj = id
			return &SliceV{Obj: id, Off: CI(0), Len: n, Cap: n}
		}
		o := &Obj{Kind: kElems, ET: sl.Elem()}
		for _, x := range v.L {
			o.E = append(o.E, g.fieldValue(s, sl.Elem(), x, f))
		}
		id := s.newObj(o)
		v.Obj = id
		return &SliceV{Obj: id, Off: CI(0), Len: n, Cap: n}
	case 'o':
		switch u := ft.Underlying().(type) {
		case *types.Pointer:
			return g.MaterializePtr(s, v)
		case *types.Interface:
			T := g.w.typeOf(v.Mod, v.Typ)
			if T == nil {
				panic(bindErr("type " + v.Typ + " does not exist"))
			}
			return &IfaceV{T: types.NewPointer(T), V: g.MaterializePtr(s, v)}
		case *types.Struct:
			_ = u
			return g.structValue(s, v)
		}
	case 'n':
		switch ft.Underlying().(type) {
		case *types.Pointer:
			return &Ptr{}
		case *types.Interface:
			return &IfaceV{}
		}
	}
	panic(bindErr(fmt.Sprintf("field %s: cannot bind value kind %c to %s", f.Go, v.K, ft)))
}

// Snapshot reads the object at ptr (or a struct value) back into a pure tree.
func (g *Gen) Snapshot(s *State, v Value, mod, tn string) *SVal {
	switch x := v.(type) {
	case *Ptr:
		if x.Obj == 0 {
			return &SVal{K: 'n'}
		}
		o := s.heap[x.Obj]
		var at Value
		if o.Kind == kElems && len(x.Path) > 0 && x.Path[0].Idx != nil && x.Path[0].Idx.IsConst() {
			at = navigate(o.E[int(x.Path[0].Idx.Val)], x.Path[1:]) // pointer to an element of a slice's backing array
		} else {
			at = navigate(o.Val, x.Path)
		}
		r := g.Snapshot(s, at, mod, tn)
		r.Obj = x.Obj
		return r
	case *IfaceV:
		if x.T == nil {
			return &SVal{K: 'n'}
		}
		name := "?"
		if p, ok := x.T.(*types.Pointer); ok {
			if n, ok := p.Elem().(*types.Named); ok {
				name = n.Obj().Name()
			}
		}
		if g.sc.Mods[mod].Types[name] == nil {
			return &SVal{K: 'o', Mod: mod, Typ: "!" + x.T.String()}
		}
		return g.Snapshot(s, x.V, mod, name)
	case *StructV:
		ts := g.sc.Mods[mod].Types[tn]
		T := g.w.typeOf(mod, tn)
		st := T.Underlying().(*types.Struct)
		ov := &SVal{K: 'o', Mod: mod, Typ: tn, F: make([]*SVal, len(ts.Fields))}
		for i := range ts.Fields {
			f := &ts.Fields[i]
			idx := structField(st, f.Go)
			if idx < 0 {
				panic(bindErr(fmt.Sprintf("%s.%s has no field %s", mod, tn, f.Go)))
			}
			ov.F[i] = g.snapField(s, x.F[idx], mod, f)
		}
		return ov
	}
	panic(fmt.Sprintf("snapshot of %T", v))
}

func (g *Gen) snapField(s *State, v Value, mod string, f *FieldSpec) *SVal {
	switch x := v.(type) {
	case *Term:
		return &SVal{K: 'i', T: x}
	case *StringV:
		m := g.P
		if f.Kind == "fixstr" || f.Kind == "list_fixstr" {
			m = f.Width + g.Slack
		}
		return &SVal{K: 's', S: x.B, SMax: m}
	case *SliceV:
		lv := &SVal{K: 'l', Obj: x.Obj}
		if x.Obj == 0 {
			return lv
		}
		if !x.Len.IsConst() || !x.Off.IsConst() {
			panic("snapshot: list of symbolic length")
		}
		o := s.heap[x.Obj]
		for j := 0; j < int(x.Len.Val); j++ {
			if o.Kind == kBytes {
				lv.L = append(lv.L, &SVal{K: 'i', T: o.B.At(Add(x.Off, CI(int64(j))))})
			} else {
				el := o.E[int(x.Off.Val)+j]
				switch f.Kind {
				case "list_obj":
					lv.L = append(lv.L, g.Snapshot(s, el, mod, f.Elem))
				default:
					lv.L = append(lv.L, g.snapField(s, el, mod, f))
				}
			}
		}
		return lv
	case *Ptr:
		return g.Snapshot(s, x, mod, f.Type)
	case *StructV:
		return g.Snapshot(s, x, mod, f.Type)
	case *IfaceV:
		return g.Snapshot(s, x, mod, "")
	}
	panic(fmt.Sprintf("snapField %T", v))
}

type Goal struct {
	Name string
	T    *Term
}

func textEq(a, b *Bytes, maxLen int) *Term {
	a, b = a.Norm(), b.Norm()
	if a.Vec != nil && b.Vec != nil {
		if len(a.Vec) != len(b.Vec) {
			return False
		}
		cs := make([]*Term, len(a.Vec))
		for i := range cs {
			cs[i] = Eq(a.Vec[i], b.Vec[i])
		}
		return And(cs...)
	}
	cs := []*Term{Eq(a.Len, b.Len)}
	if cs[0] == False {
		return False
	}
	n := maxLen
	if a.Vec != nil {
		n = len(a.Vec)
	} else if b.Vec != nil {
		n = len(b.Vec)
	}
	for j := 0; j < n; j++ {
		in := Lt(CI(int64(j)), a.Len, true)
		if in == False {
			break
		}
		cs = append(cs, Implies(in, Eq(a.At(CI(int64(j))), b.At(CI(int64(j))))))
	}
	return And(cs...)
}

// EqualGoals: b (observed) equals a (expected); one goal per leaf field. skip(path, fieldspec) filters.
func (g *Gen) EqualGoals(a, b *SVal, path string, out *[]Goal) {
	add := func(t *Term) { *out = append(*out, Goal{path, t}) }
	if a.K != b.K {
		if a.K == 'l' && b.K == 'l' {
		} else {
			add(False)
			return
		}
	}
	switch a.K {
	case 'i':
		if a.T.W != b.T.W {
			add(False)
			return
		}
		add(Eq(a.T, b.T))
	case 's':
		add(textEq(a.S, b.S, max(a.SMax, b.SMax)))
	case 'l':
		if len(a.L) != len(b.L) {
			*out = append(*out, Goal{path + ".len", False})
			return
		}
		if len(a.L) == 0 {
			*out = append(*out, Goal{path + ".len", True})
		}
		for i := range a.L {
			g.EqualGoals(a.L[i], b.L[i], fmt.Sprintf("%s[%d]", path, i), out)
		}
	case 'o':
		if a.Typ != b.Typ || a.Mod != b.Mod {
			*out = append(*out, Goal{path + ".(type)", False})
			return
		}
		ts := g.sc.Mods[a.Mod].Types[a.Typ]
		for i := range a.F {
			g.EqualGoals(a.F[i], b.F[i], path+"."+ts.Fields[i].Go, out)
		}
	case 'n':
		add(True)
	}
}

// Concretize evaluates the tree under a model into a JSON-able value (the runner's input format).
func (g *Gen) Concretize(v *SVal, val func(*Term) uint64) any {
	switch v.K {
	case 'i':
		return fmt.Sprintf("%d", val(v.T))
	case 's':
		n := int(val(v.S.Len))
		if n < 0 || n > 1<<20 {
			n = 0
		}
		bs := make([]byte, n)
		for i := range bs {
			bs[i] = byte(val(v.S.At(CI(int64(i)))))
		}
		return map[string]any{"$hex": hex.EncodeToString(bs)}
	case 'l':
		out := []any{}
		for _, x := range v.L {
			out = append(out, g.Concretize(x, val))
		}
		return out
	case 'o':
		if strings.HasPrefix(v.Typ, "!") {
			return map[string]any{"$type": v.Typ}
		}
		ts := g.sc.Mods[v.Mod].Types[v.Typ]
		m := map[string]any{"$type": v.Typ}
		for i, f := range ts.Fields {
			m[f.Go] = g.Concretize(v.F[i], val)
		}
		return m
	}
	return nil
}
