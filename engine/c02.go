package main

// C02 - layout equals the pinned schema (translation validation of the generated codecs against the
// schema interpreter), C03(b) - byte order of every integer region of every message.

import "fmt"

func init() {
	drivers["C02"] = &Driver{Prop: "C02", Level: "translation_validation",
		Explain: "per message type (one 'program' each): (a) the bytes appended by the real Encode on the wide domain equal, region by region, the reference encoding of the pinned schema in the protocol's declared byte order; (b) the real Decode of reference bytes yields the original value; (c) for fixed-layout types the real Decode of arbitrary bytes equals the reference decoding",
		Assume:  []string{"pinned schema under /verif/schema (extracted once from the pinned commit, byte order declared per protocol) is the reference", "standard-library contracts listed under trusted_base", "list shapes and prefixed-text bound as stated in bounds"},
		Bounds: func(tier string) map[string]any {
			if tier == "thorough" {
				return map[string]any{"list_lengths": "uniform 0,1,2,3 + mixed", "prefixed_text_max": 12, "fixed_text": "length 0..W+2 (over-long text is truncated)", "keys": "all, frame x inner"}
			}
			return map[string]any{"list_lengths": "uniform 0,1,2", "prefixed_text_max": 4, "fixed_text": "length 0..W+2", "keys": "all 226 own keys"}
		},
		Items: func(c *Ctx) []Item { return layoutItems(c, false) }}
	drivers["C03"] = &Driver{Prop: "C03", Level: "model_checking",
		Explain: "(a) every BE/LE primitive pair of codec x prefix type x element type is executed on the same symbolic value: the LE output must equal the BE output with the bytes of every integer region reversed; readers decode the reversed image; (b) every multi-byte integer region of every message (scalars, counts, elements, length prefixes, computed fields) is compared with the rendering in the protocol's declared byte order",
		Assume:  []string{"byte order per protocol is declared in the pinned schema (SSE, SZSE, risk: big; BSE, sample: little; hand-written sample.RiskControlRequest/SubOrder: big, as written)", "standard-library contracts listed under trusted_base"},
		Bounds: func(tier string) map[string]any {
			return map[string]any{"primitive_list_lengths": "0..2 (thorough 0..3)", "message_list_lengths": "uniform 0,1,2", "prefix_types": "uint8,uint16,uint32", "element_types": "all 10 basic types"}
		},
		Items: func(c *Ctx) []Item { return append(primPairItems(c), layoutItems(c, true)...) }}
}

func layoutItems(c *Ctx, numericOnly bool) []Item {
	ns := []int{0, 1, 2}
	if c.thorough() {
		ns = []int{0, 1, 2, 3}
	}
	var items []Item
	for _, mc := range c.msgCases(ns, c.thorough(), c.thorough()) {
		mc := mc
		if numericOnly {
			items = append(items, Item{ID: "msg:" + mc.ID(), Run: func(c *Ctx) { c02enc(c, mc, true, false) }})
			if fi := c.frameInfo(mc.Mod, mc.Typ); fi != nil && fi.Alg != "" && mc.N == 0 {
				// the layout holds whatever is registered: with the checksum service absent the caller's value goes out,
				// in the protocol's byte order
				items = append(items, Item{ID: "msg:" + mc.ID() + "/registry=empty", Run: func(c *Ctx) { c02enc(c, mc, true, true) }})
			}
			continue
		}
		items = append(items, Item{ID: "enc:" + mc.ID(), Run: func(c *Ctx) { c02enc(c, mc, false, false) }})
		if fi := c.frameInfo(mc.Mod, mc.Typ); fi != nil && fi.Alg != "" && mc.N == 0 {
			items = append(items, Item{ID: "enc:" + mc.ID() + "/registry=empty", Run: func(c *Ctx) { c02enc(c, mc, false, true) }})
		}
		items = append(items, Item{ID: "dec:" + mc.ID(), Run: func(c *Ctx) { c02dec(c, mc) }})
	}
	return items
}

func (h *harness) encodeSteps(val func(*Term) uint64) []map[string]any {
	return []map[string]any{
		step("op", "newbuf", "buf", "b", "hex", hexOf(evalTerms(h.prior, val))),
		step("op", "newmsg", "msg", "m", "module", h.mc.Mod, "type", h.mc.Typ, "value", h.g.Concretize(h.m, val)),
		step("op", "encode", "msg", "m", "buf", "b"),
	}
}

// regionGoal: bytes [start,end) of a and b agree (end-start may be symbolic but bounded by maxLen).
func regionGoal(a, b *Bytes, start, end *Term, maxLen int) *Term {
	if d, ok := diffConst(end, start); ok {
		cs := make([]*Term, 0, d)
		for j := int64(0); j < d; j++ {
			idx := Add(start, CI(j))
			cs = append(cs, Eq(a.At(idx), b.At(idx)))
		}
		return And(cs...)
	}
	var cs []*Term
	for j := 0; j < maxLen; j++ {
		idx := Add(start, CI(int64(j)))
		in := Lt(idx, end, true)
		if in == False {
			break
		}
		cs = append(cs, Implies(in, Eq(a.At(idx), b.At(idx))))
	}
	return And(cs...)
}

func c02enc(c *Ctx, mc MsgCase, numericOnly bool, noreg bool) {
	h := c.newHarness(mc, "wide", 0)
	e := c.e()
	if noreg {
		fn := c.w.fn("codec.Clear")
		if fn == nil {
			c.Inconclusive("codec.Clear not found")
			return
		}
		e.pushCall(h.s, fn, nil, nil)
		fin := e.Run(h.s)
		if len(fin) != 1 || fin[0].panicd != "" || fin[0].cut != "" {
			c.Inconclusive("codec.Clear did not run to a single result")
			return
		}
		h.s = fin[0]
		h.s.frames = nil
	}
	encSteps := func(val func(*Term) uint64) []map[string]any {
		st := h.encodeSteps(val)
		if noreg {
			st = append([]map[string]any{step("op", "registry", "ops", []map[string]any{step("op", "Clear")})}, st...)
		}
		return st
	}
	shift := 0
	if noreg {
		shift = 1
	}
	bufPtr := &Ptr{Obj: h.bufID}
	e.pushCall(h.s, h.enc, []Value{h.mPtr, bufPtr}, nil)
	for _, fs := range e.Run(h.s) {
		if c.PathProblem(fs, "Encode", func(val func(*Term) uint64, msg string) *Violation {
			return &Violation{Obligation: "encode-no-panic", Detail: "Encode panics: " + msg,
				Replay: &ReplayReq{Steps: encSteps(val), Judge: Judge{Kind: "panic"}}}
		}) {
			continue
		}
		if h.enc.Signature.Results().Len() > 0 && !isNilErr(fs.ret) {
			c.Prove(fs, "encode-succeeds", False, func(val func(*Term) uint64) *Violation {
				return &Violation{Detail: "Encode returns an error", Replay: &ReplayReq{Steps: encSteps(val), Judge: Judge{Kind: "err_nonnil", Step: 2 + shift}}}
			})
			continue
		}
		out := fs.heap[h.bufID].B
		// computed checksum: the algorithm over the bytes actually emitted before the trailer (their layout is
		// established region by region against the reference; the length obligation ties the two lengths)
		so := h.sumOracle(fs)
		h.ref.Sum = func(alg string, frame *Bytes) *Term { return so(alg, SliceBytes(out, CI(0), frame.Len)) }
		if noreg {
			// no service: the value the caller left in the checksum field goes out
			ts := c.sc.Mods[mc.Mod].Types[mc.Typ]
			for i := range ts.Fields {
				if ts.Fields[i].Kind == "computed_sum" {
					cs := h.m.F[i].T
					h.ref.Sum = func(alg string, frame *Bytes) *Term { return cs }
				}
			}
		}
		h.ref.Nums, h.ref.Leaves = nil, nil
		refB, _ := h.ref.Enc(h.m)
		c.Witness(fs, "encode path", func(val func(*Term) uint64) any {
			return map[string]any{"input": h.g.Concretize(h.m, val), "wire_hex": hexOf(evalBytes(out, val)), "reference_hex": hexOf(evalBytes(refB, val))}
		})
		mkViol := func(what string) func(val func(*Term) uint64) *Violation {
			return func(val func(*Term) uint64) *Violation {
				want := hexOf(evalBytes(refB, val))
				j := Judge{Kind: "buf_ne", Step: 2 + shift, ExpectHex: want}
				if fi := c.frameInfo(mc.Mod, mc.Typ); !noreg && fi != nil && (fi.LenOff >= 0 || fi.Alg != "") {
					// computed fields are recomputed concretely from the reference layout (a CRC is an uninterpreted
					// function in the symbolic run: its model value is not an expectation)
					j = Judge{Kind: "reencode_frame", Step: 2, ExpectHex: want, Frame: fi}
				}
				return &Violation{Detail: what, Model: map[string]any{"input": h.g.Concretize(h.m, val), "reference_hex": want, "engine_wire_hex": hexOf(evalBytes(out, val))},
					Replay: &ReplayReq{Steps: encSteps(val), Judge: j}}
			}
		}
		if !c.Prove(fs, "length", Eq(out.Len, refB.Len), mkViol("encoded length differs from the reference layout")) {
			continue
		}
		if numericOnly {
			for _, rg := range h.ref.Nums {
				c.Prove(fs, "byteorder:"+rg.Name, regionGoal(out, refB, rg.Start, rg.End, 8), mkViol(fmt.Sprintf("integer %s is not rendered in the protocol's byte order", rg.Name)))
			}
			continue
		}
		for _, rg := range h.ref.Leaves {
			c.Prove(fs, "layout:"+rg.Name, regionGoal(out, refB, rg.Start, rg.End, h.g.P+h.g.Slack+256), mkViol(fmt.Sprintf("wire bytes of field %s differ from the pinned layout", rg.Name)))
		}
	}
}

// c02dec: (b) decode of reference bytes; (c) decode of arbitrary bytes for fixed-layout types.
func c02dec(c *Ctx, mc MsgCase) {
	h := c.newHarness(mc, "canon", 0)
	e := c.e()
	s := h.s
	// (b) reference bytes of a canonical value
	var trailer *Term
	h.ref.Sum = func(alg string, frame *Bytes) *Term { // any trailer value: the decoder does not verify it
		if trailer == nil {
			trailer = e.freshVar("refsum", 32)
		}
		return trailer
	}
	refB, _ := h.ref.Enc(h.m)
	exp := h.ref.Expected(h.m)
	s.heap[h.bufID].B = refB
	d := h.freshReceiver(s)
	e.pushCall(s, h.dec, []Value{d, &Ptr{Obj: h.bufID}}, nil)
	steps := func(val func(*Term) uint64) []map[string]any {
		return []map[string]any{
			step("op", "newbuf", "buf", "b", "hex", hexOf(evalBytes(refB, val))),
			step("op", "newmsg", "msg", "d", "module", mc.Mod, "type", mc.Typ),
			step("op", "decode", "msg", "d", "buf", "b"),
		}
	}
	for _, ds := range e.Run(s) {
		if c.PathProblem(ds, "Decode(reference bytes)", func(val func(*Term) uint64, msg string) *Violation {
			return &Violation{Obligation: "decode-no-panic", Detail: "Decode panics on reference bytes: " + msg, Replay: &ReplayReq{Steps: steps(val), Judge: Judge{Kind: "panic"}}}
		}) {
			continue
		}
		if !isNilErr(ds.ret) {
			c.Prove(ds, "decode-accepts-reference", False, func(val func(*Term) uint64) *Violation {
				return &Violation{Detail: "Decode rejects bytes laid out as the pinned schema says", Replay: &ReplayReq{Steps: steps(val), Judge: Judge{Kind: "err_nonnil", Step: 2}}}
			})
			continue
		}
		got := h.g.Snapshot(ds, d, mc.Mod, mc.Typ)
		var goals []Goal
		h.g.EqualGoals(exp, got, "", &goals)
		for _, gl := range goals {
			gl := gl
			c.Prove(ds, "refdec"+gl.Name, gl.T, func(val func(*Term) uint64) *Violation {
				return &Violation{Detail: "decoding the reference bytes yields a different " + gl.Name,
					Replay: &ReplayReq{Steps: steps(val), Judge: Judge{Kind: "msg_ne", Step: 2, ExpectMsg: h.g.Concretize(exp, val)}}}
			})
		}
		c.Prove(ds, "refdec-consumes-all", Eq(unreadLen(ds.heap[h.bufID]), CI(0)), func(val func(*Term) uint64) *Violation {
			return &Violation{Detail: "decoding the reference bytes leaves bytes unread", Replay: &ReplayReq{Steps: steps(val), Judge: Judge{Kind: "buf_ne", Step: 2, ExpectHex: ""}}}
		})
		c.Witness(ds, "refdec", nil)
	}
	// (c) arbitrary image of a fixed-layout type
	ref := h.ref
	bodyOf := func(tab *TableSpec) string {
		if tab.Owner == mc.Typ {
			if mc.Key < 0 {
				return ""
			}
			return tab.Entries[mc.Key][1].(string)
		}
		return tab.Entries[mc.Inner%len(tab.Entries)][1].(string)
	}
	size := ref.FixedSize(mc.Mod, mc.Typ, bodyOf)
	if size < 0 || mc.N != 0 {
		return
	}
	s2 := c.w.newState()
	w := make([]*Term, size)
	for i := range w {
		w[i] = e.freshVar("w", 8)
	}
	// discriminator bytes are fixed to the chosen key by constraining the decoded key field
	buf2 := s2.newObj(&Obj{Kind: kBuffer, B: VecBytes(w), R: CI(0)})
	keyBody := func(tab *TableSpec, key *SVal) string { return bodyOf(tab) }
	want, _ := ref.Dec(mc.Mod, mc.Typ, w, 0, keyBody)
	c.constrainKeys(s2, want, mc)
	d2 := h.freshReceiver(s2)
	e.pushCall(s2, h.dec, []Value{d2, &Ptr{Obj: buf2}}, nil)
	steps2 := func(val func(*Term) uint64) []map[string]any {
		return []map[string]any{
			step("op", "newbuf", "buf", "b", "hex", hexOf(evalTerms(w, val))),
			step("op", "newmsg", "msg", "d", "module", mc.Mod, "type", mc.Typ),
			step("op", "decode", "msg", "d", "buf", "b"),
		}
	}
	for _, ds := range e.Run(s2) {
		if c.PathProblem(ds, "Decode(arbitrary image)", func(val func(*Term) uint64, msg string) *Violation {
			return &Violation{Obligation: "decode-no-panic", Detail: "Decode panics: " + msg, Replay: &ReplayReq{Steps: steps2(val), Judge: Judge{Kind: "panic"}}}
		}) {
			continue
		}
		if !isNilErr(ds.ret) {
			c.Prove(ds, "decode-accepts-image", False, func(val func(*Term) uint64) *Violation {
				return &Violation{Detail: "Decode rejects a full-size image with a registered discriminator", Replay: &ReplayReq{Steps: steps2(val), Judge: Judge{Kind: "err_nonnil", Step: 2}}}
			})
			continue
		}
		got := h.g.Snapshot(ds, d2, mc.Mod, mc.Typ)
		var goals []Goal
		h.g.EqualGoals(want, got, "", &goals)
		for _, gl := range goals {
			gl := gl
			c.Prove(ds, "imgdec"+gl.Name, gl.T, func(val func(*Term) uint64) *Violation {
				return &Violation{Detail: "decoded " + gl.Name + " differs from the reference decoding of the same bytes",
					Replay: &ReplayReq{Steps: steps2(val), Judge: Judge{Kind: "msg_ne", Step: 2, ExpectMsg: h.g.Concretize(want, val)}}}
			})
		}
		c.Prove(ds, "imgdec-consumes-all", Eq(unreadLen(ds.heap[buf2]), CI(0)), func(val func(*Term) uint64) *Violation {
			return &Violation{Detail: "decoding a full-size image leaves bytes unread", Replay: &ReplayReq{Steps: steps2(val), Judge: Judge{Kind: "buf_ne", Step: 2, ExpectHex: ""}}}
		})
	}
}

// constrainKeys: the discriminator fields of the reference-decoded value equal the chosen keys.
func (c *Ctx) constrainKeys(s *State, v *SVal, mc MsgCase) {
	var walk func(v *SVal, top bool)
	walk = func(v *SVal, top bool) {
		if v == nil || v.K != 'o' {
			return
		}
		ms := c.sc.Mods[v.Mod]
		ts := ms.Types[v.Typ]
		if bf := ts.BodyField(); bf != nil {
			tab := ms.Tables[bf.Table]
			idx := mc.Inner % len(tab.Entries)
			if top {
				idx = mc.Key
			}
			if idx >= 0 {
				for i := range ts.Fields {
					if ts.Fields[i].Go != bf.Key {
						continue
					}
					switch kv := tab.Entries[idx][0].(type) {
					case string:
						s.pc = append(s.pc, textEq(ConstBytes(kv), v.F[i].S, len(kv)+ts.Fields[i].Width))
					case float64:
						s.pc = append(s.pc, Eq(v.F[i].T, C(v.F[i].T.W, uint64(kv))))
					}
				}
			}
		}
		for _, f := range v.F {
			walk(f, false)
		}
	}
	walk(v, true)
}
