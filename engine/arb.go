package main

// Message decoders on FULLY arbitrary byte strings (items "arbmsg:<module>.<type>").
//
// The input is an array-backed byte string of symbolic length 0..N and symbolic content: every count, length
// prefix, discriminator and computed field is whatever the solver chooses (the shape-based items fix the list
// counts per item; here the decoder's own loops decide how far a count can go before the input runs out).
// N: see arbBound (fixed layouts: whole image + 8; variable layouts: minimal image + a few spare bytes).
//   C09: no panic side condition, no loop outliving the input, linear instruction count, no abort-sized request
//   C10: every allocation <= 64*len(input)+64
//   C08: on every accepting path the real Encode of the result reproduces the consumed bytes
//        (computed length / checksum regions excepted; those are C04/C05's subject)

import (
	"fmt"
	"strings"
)

type arbMode struct{ noPanic, alloc, reencode bool }

// arbItems: one item per codec type; types that select a body by a discriminator get one item per registered key
// (the input's key bytes are constrained to that key, everything else stays arbitrary; unregistered keys are the
// subject of the unknownkey: items), which shards the frames.
func (c *Ctx) arbItems(mode arbMode) []Item {
	var items []Item
	seen := map[string]bool{}
	for _, mc := range c.msgCases([]int{1}, false, false) {
		id := mc.Mod + "." + mc.Typ
		if mc.Key >= 0 {
			id += fmt.Sprintf("/key=%d", mc.Key)
		}
		if seen[id] {
			continue
		}
		seen[id] = true
		mod, typ, key := mc.Mod, mc.Typ, mc.Key
		if !c.thorough() && key >= 0 && c.frameInfo(mod, typ) != nil {
			continue // quick tier: the frames' bodies have their own items; frames per key are in the thorough tier
		}
		items = append(items, Item{ID: "arbmsg:" + id, Run: func(c *Ctx) { decArb(c, mod, typ, key, mode) }})
	}
	return items
}

// hasPstrList: the value tree contains a list of length-prefixed strings (nested symbolic offsets: every element
// has its own symbolic length, the queries of the arbitrary-input items take seconds each). Those types are left
// to the shape items and to the primitive-level items, and listed as such.
func (c *Ctx) hasPstrList(mod, tn string, key int, depth int) bool {
	ms := c.sc.Mods[mod]
	ts := ms.Types[tn]
	for i := range ts.Fields {
		f := &ts.Fields[i]
		switch f.Kind {
		case "list_pstr":
			return true
		case "list_obj":
			if c.hasPstrList(mod, f.Elem, 0, depth+1) {
				return true
			}
		case "nested":
			if c.hasPstrList(mod, f.Type, 0, depth+1) {
				return true
			}
		case "body":
			if key >= 0 {
				tab := ms.Tables[f.Table]
				if c.hasPstrList(mod, tab.Entries[key%len(tab.Entries)][1].(string), 0, depth+1) {
					return true
				}
			}
		}
	}
	return false
}

// arbBound: input length bound N. Fixed layouts: the longest reference image over the type's keys + 8. Types with
// lists or prefixed text: every count/length the decoder reads forks the exploration and the paths of successive
// lists multiply, so N is the shortest valid image (all lists empty, all texts empty) plus a small number of spare
// bytes that the hostile counts and lengths can spend (6 for at most two variable parts, 3 otherwise;
// thorough: 12 / 5).
func (c *Ctx) arbBound(mod, typ string, key int) int {
	best, least := int64(0), int64(1<<30)
	variable := 0
	for _, n := range []int{0, 1} {
		for _, mc := range c.msgCases([]int{n}, false, false) {
			if mc.Mod != mod || mc.Typ != typ || mc.Key != key || mc.N != n && !(n == 1 && mc.N == 0) {
				continue
			}
			lists, pstr, _ := c.treeInfo(mod, typ, mc.Key, mc.Inner, 0)
			v := lists
			if pstr {
				v += 2
			}
			if v > variable {
				variable = v
			}
			h := c.newHarness(mc, "raw", 0)
			h.ref.Sum = func(alg string, frame *Bytes) *Term { return C(32, 0) }
			w, _ := h.ref.Enc(h.m)
			if lo, hi, ok := boundsOf(w.Len); ok {
				if hi > best {
					best = hi
				}
				if n == 0 && lo < least {
					least = lo
				}
			}
		}
	}
	if variable == 0 {
		n := int(best) + 8
		if n > 600 {
			n = 600
		}
		return n
	}
	spare := 3
	if variable <= 2 {
		spare = 6
	}
	if c.thorough() {
		spare = 5
		if variable <= 2 {
			spare = 12
		}
	}
	// the shortest image over all keys would starve the longer bodies of a frame: take the longest minimal image
	return int(c.arbLongestMinimal(mod, typ, key)) + spare
}

// arbLongestMinimal: max over keys of the minimal image length (lists empty, texts empty).
func (c *Ctx) arbLongestMinimal(mod, typ string, key int) int64 {
	m := int64(0)
	for _, mc := range c.msgCases([]int{0}, false, false) {
		if mc.Mod != mod || mc.Typ != typ || mc.Key != key {
			continue
		}
		h := c.newHarness(mc, "raw", 0)
		h.ref.Sum = func(alg string, frame *Bytes) *Term { return C(32, 0) }
		w, _ := h.ref.Enc(h.m)
		if lo, _, ok := boundsOf(w.Len); ok && lo > m {
			m = lo
		}
	}
	return m
}

func decArb(c *Ctx, mod, typ string, key int, mode arbMode) {
	if c.hasPstrList(mod, typ, key, 0) {
		c.res.Vacuous = append(c.res.Vacuous, "type contains a list of length-prefixed strings: arbitrary-input item not run (nested symbolic offsets); covered by the shape items and the prim: items")
		return
	}
	if lists, _, _ := c.treeInfo(mod, typ, key, 0, 0); lists > 3 {
		c.res.Vacuous = append(c.res.Vacuous, fmt.Sprintf("type contains %d lists: arbitrary-input item not run (the feasible count combinations multiply: every way of spending the input on the lists is a path); covered by the shape items and the prim: items", lists))
		return
	}
	N := c.arbBound(mod, typ, key)
	mc := MsgCase{Mod: mod, Typ: typ, Key: key}
	h := c.newHarness(mc, "raw", 0)
	e := c.e()
	s := h.s
	g := &Gen{w: c.w, sc: c.sc}
	t := g.symText(s, "in", N)
	in := t.S
	if key >= 0 {
		// constrain the discriminator bytes of the input to this key (their position is fixed: everything before
		// the discriminator has a fixed width in every table owner of the pinned schema)
		ts := c.sc.Mods[mod].Types[typ]
		bf := ts.BodyField()
		h.ref.Sum = func(alg string, frame *Bytes) *Term { return C(32, 0) }
		h.ref.Leaves = nil
		w, _ := h.ref.Enc(h.m)
		done := false
		for _, rg := range h.ref.Leaves {
			if rg.Name != bf.Key {
				continue
			}
			if !rg.Start.IsConst() || !rg.End.IsConst() {
				break
			}
			for j := int64(rg.Start.Val); j < int64(rg.End.Val); j++ {
				b := w.At(CI(j))
				if !b.IsConst() {
					done = false
					break
				}
				s.pc = append(s.pc, Implies(Lt(CI(j), in.Len, true), Eq(in.At(CI(j)), b)))
				done = true
			}
			break
		}
		if !done {
			c.Inconclusive("cannot locate the discriminator bytes of " + typ + " in the reference image")
			return
		}
	}
	s.heap[h.bufID].B = in
	e.watchBuf = h.bufID
	oldUnroll := e.unroll
	if e.unroll < N+2 {
		e.unroll = N + 2
	}
	defer func() { e.watchBuf = 0; e.unroll = oldUnroll }()
	input := func(val func(*Term) uint64) []byte { return evalBytes(in, val) }
	d := h.freshReceiver(s)
	steps0 := s.steps
	nAlloc0 := len(s.allocs)
	fi := c.frameInfo(mod, typ)
	nfields := len(c.sc.Mods[mod].Types[typ].Fields)
	full := func(val func(*Term) uint64) []map[string]any {
		st := decodeSteps(mc, input(val))
		return append(st, step("op", "newbuf", "buf", "o", "hex", ""), step("op", "encode", "msg", "d", "buf", "o"))
	}
	accepted := 0
	e.pushCall(s, h.dec, []Value{d, &Ptr{Obj: h.bufID}}, nil)
	for _, ds := range e.Run(s) {
		if ds.cut != "" && strings.HasPrefix(ds.cut, "unwind") {
			if mode.noPanic {
				c.Prove(ds, "loop-progress", False, func(val func(*Term) uint64) *Violation {
					return &Violation{Detail: "Decode: a read loop runs longer than the input (" + ds.cut + ")", Model: map[string]any{"input_hex": hexOf(input(val))},
						Replay: &ReplayReq{Steps: decodeSteps(mc, input(val)), Judge: Judge{Kind: "abort"}}}
				})
			} else {
				c.Inconclusive("path cut: " + ds.cut)
			}
			continue
		}
		if c.PathProblem(ds, "Decode", func(val func(*Term) uint64, msg string) *Violation {
			if !mode.noPanic {
				return nil
			}
			return &Violation{Obligation: "decode-no-panic", Detail: "Decode panics on arbitrary bytes: " + msg, Model: map[string]any{"input_hex": hexOf(input(val))},
				Replay: &ReplayReq{Steps: decodeSteps(mc, input(val)), Judge: Judge{Kind: "panic"}}}
		}) {
			continue
		}
		if mode.noPanic {
			c.res.Obl++
			c.res.Dis++
			used := ds.steps - steps0
			limit := 4000 + 400*nfields + 400*N
			c.Prove(ds, "linear-time", B(used <= limit), nil)
			c.lockLeak(ds, mc, input)
		}
		if mode.noPanic || mode.alloc {
			saved := ds.allocs
			ds.allocs = ds.allocs[nAlloc0:]
			c.checkAllocs(ds, "Decode", in.Len, mode.alloc, mode.noPanic, func(val func(*Term) uint64, j Judge) *ReplayReq {
				return &ReplayReq{Steps: decodeSteps(mc, input(val)), Judge: j}
			})
			ds.allocs = saved
		}
		if !mode.reencode {
			continue
		}
		if !isNilErr(ds.ret) {
			c.res.Obl++
			c.res.Dis++
			continue
		}
		accepted++
		consumed := ds.heap[h.bufID].R
		mkc := func(what string) func(val func(*Term) uint64) *Violation {
			return func(val func(*Term) uint64) *Violation {
				inp := input(val)
				k := int(val(consumed))
				if k > len(inp) {
					k = len(inp)
				}
				j := Judge{Kind: "buf_ne", Step: 4, ExpectHex: hexOf(inp[:k])}
				if fi != nil && (fi.LenOff >= 0 || fi.Alg != "") {
					j = Judge{Kind: "reencode_frame", Step: 4, ExpectHex: hexOf(inp[:k]), Frame: fi}
				}
				return &Violation{Detail: what, Model: map[string]any{"input_hex": hexOf(inp), "consumed": k}, Replay: &ReplayReq{Steps: full(val), Judge: j}}
			}
		}
		if !c.Prove(ds, "consumes-at-most-input", Le(consumed, in.Len, true), mkc("Decode reports more bytes consumed than were present")) {
			continue
		}
		out := ds.newObj(&Obj{Kind: kBuffer, B: EmptyBytes(), R: CI(0)})
		e.pushCall(ds, h.enc, []Value{d, &Ptr{Obj: out}}, nil)
		for _, es := range e.Run(ds) {
			if c.PathProblem(es, "Encode(decoded)", func(val func(*Term) uint64, msg string) *Violation {
				return &Violation{Obligation: "reencode-no-panic", Detail: "re-encoding a decoded message panics: " + msg, Model: map[string]any{"input_hex": hexOf(input(val))},
					Replay: &ReplayReq{Steps: full(val), Judge: Judge{Kind: "panic"}}}
			}) {
				continue
			}
			if !encOK(h, es) {
				c.Prove(es, "reencode-succeeds", False, func(val func(*Term) uint64) *Violation {
					return &Violation{Detail: "re-encoding a decoded message returns an error", Model: map[string]any{"input_hex": hexOf(input(val))},
						Replay: &ReplayReq{Steps: full(val), Judge: Judge{Kind: "err_nonnil", Step: 4}}}
				})
				continue
			}
			ob := unread(es.heap[out])
			c.Witness(es, "arbitrary-decode-encode", func(val func(*Term) uint64) any {
				return map[string]any{"input_hex": hexOf(input(val)), "consumed": val(consumed), "reencoded_hex": hexOf(evalBytes(ob, val))}
			})
			if !c.Prove(es, "reencoded-length", Eq(ob.Len, consumed), mkc("re-encoded length differs from the number of bytes consumed")) {
				continue
			}
			// compare everything outside the computed regions, in chunks of 32 bytes
			type span struct{ a, b *Term }
			spans := []span{{CI(0), consumed}}
			if fi != nil {
				spans = nil
				end := consumed
				if fi.Alg != "" || fi.SumSize > 0 {
					end = Sub(consumed, CI(int64(fi.SumSize)))
				}
				if fi.LenOff >= 0 {
					spans = append(spans, span{CI(0), CI(int64(fi.LenOff))}, span{CI(int64(fi.LenOff + fi.LenSize)), end})
				} else {
					spans = append(spans, span{CI(0), end})
				}
			}
			for si, sp := range spans {
				for base := 0; base < N; base += 32 {
					lo := Add(sp.a, CI(int64(base)))
					if Lt(lo, sp.b, true) == False {
						break
					}
					hiT := Add(lo, CI(32))
					// end of this chunk: min(lo+32, sp.b)
					endT := Ite(Lt(hiT, sp.b, true), hiT, sp.b)
					goal := regionGoal(ob, in, lo, endT, 32)
					if goal == True {
						c.res.Obl++
						c.res.Dis++
						c.res.Syntactic++
						continue
					}
					c.Prove(es, fmt.Sprintf("bytes:span%d+%d", si, base), goal, mkc(fmt.Sprintf("re-encoding does not reproduce the consumed wire bytes (span %d, offset %d..)", si, base)))
				}
			}
		}
	}
	if mode.reencode && accepted == 0 {
		c.res.Vacuous = append(c.res.Vacuous, "no accepting path within "+fmt.Sprint(N)+" input bytes")
	}
	c.Witness(s, "arbitrary input", func(val func(*Term) uint64) any { return map[string]any{"input_hex": hexOf(input(val)), "max_len": N} })
}
