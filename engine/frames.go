package main

// C04 (body length) and C05 (checksum span and algorithm) on the frames with computed fields.

import (
	"fmt"
	"strings"
)

type FrameCase struct {
	MsgCase
	H, R    int
	NilBody bool
	NoReg   bool // the checksum registry was emptied (codec.Clear) before the call
}

func (fc FrameCase) ID() string {
	s := fc.MsgCase.ID()
	if fc.NilBody {
		s = fc.Mod + "." + fc.Typ + "/nilbody"
	}
	if fc.NoReg {
		return fmt.Sprintf("%s/H=%d/R=%d/registry=empty", s, fc.H, fc.R)
	}
	return fmt.Sprintf("%s/H=%d/R=%d", s, fc.H, fc.R)
}

func (c *Ctx) frameCases(needSum bool) []FrameCase {
	var out []FrameCase
	hs := []int{0, 2}
	rs := []int{0}
	ns := []int{0, 1, 2}
	if c.thorough() {
		hs = []int{0, 1, 2, 3}
		rs = []int{0, 2}
		ns = []int{0, 1, 2, 3}
	}
	for _, mc := range c.msgCases(ns, c.thorough(), false) {
		fi := c.frameInfo(mc.Mod, mc.Typ)
		if fi == nil || fi.LenOff < 0 {
			continue
		}
		if needSum && fi.Alg == "" {
			continue
		}
		for _, h := range hs {
			for _, r := range rs {
				out = append(out, FrameCase{MsgCase: mc, H: h, R: r})
			}
		}
		if !needSum && mc.N <= 1 && c.bodyHasPtrParts(mc) {
			// bodies whose nested pointer parts are absent: Encode fills them in - the length must count what is
			// really written
			nm := mc
			nm.NilParts = true
			out = append(out, FrameCase{MsgCase: nm, H: 0, R: 0})
		}
		if !needSum && fi.Alg != "" {
			// the length must be right whether or not the frame's checksum service is registered
			out = append(out, FrameCase{MsgCase: mc, H: 0, R: 0, NoReg: true})
		}
	}
	// absent body
	for _, mod := range modules {
		for _, tn := range c.sc.Mods[mod].TypeNames() {
			fi := c.frameInfo(mod, tn)
			if fi == nil || fi.LenOff < 0 || (needSum && fi.Alg == "") {
				continue
			}
			for _, h := range hs {
				out = append(out, FrameCase{MsgCase: MsgCase{Mod: mod, Typ: tn, Key: -1}, H: h, NilBody: true})
			}
		}
	}
	return out
}

func init() {
	bounds := func(tier string) map[string]any {
		if tier == "thorough" {
			return map[string]any{"prior_unread_bytes_H": "0,1,2,3 (symbolic content)", "consumed_bytes_R": "0,2", "list_lengths": "uniform 0..3", "prefixed_text_max": 12, "keys": "every registered key of the 4 computed-length frames + absent body, frame x inner extension key", "body_domain": "wide (text length 0..W+2)", "stale_fields": "symbolic"}
		}
		return map[string]any{"prior_unread_bytes_H": "0,2 (symbolic content)", "consumed_bytes_R": "0", "list_lengths": "uniform 0,1,2", "prefixed_text_max": 4, "keys": "every registered key of the 4 computed-length frames + absent body", "body_domain": "wide (text length 0..W+2)", "stale_fields": "symbolic"}
	}
	drivers["C04"] = &Driver{Prop: "C04", Level: "model_checking",
		Explain: "real frame Encode (SseBinary, SzseBinary, RcBinary, RootPacket) executed symbolically into a buffer holding R consumed and H unread symbolic bytes, with symbolic stale length/checksum and a wide symbolic body; the length bytes at the schema offset (protocol byte order) and the object's length field must equal the number of body bytes appended",
		Assume:  []string{"standard-library contracts listed under trusted_base (bytes.Buffer exposes only the unread region: consumed bytes are unobservable through the API)", "bounds as stated"},
		Bounds:  bounds,
		Items: func(c *Ctx) []Item {
			var items []Item
			for _, fc := range c.frameCases(false) {
				fc := fc
				items = append(items, Item{ID: fc.ID(), Run: func(c *Ctx) { frameCheck(c, fc, true, false) }})
			}
			return items
		}}
	drivers["C05"] = &Driver{Prop: "C05", Level: "model_checking",
		Explain: "same harness as C04 for the checksummed frames (SSE, SZSE, sample): the trailer bytes and the object's checksum must equal the reference algorithm (byte sum mod 256 / CRC-32 as an uninterpreted function of the byte sequence, whose implementation is C14's subject) over exactly this frame's bytes, excluding prior buffer content and including the corrected length",
		Assume:  []string{"standard-library contracts listed under trusted_base", "CRC-32 is treated as a function of its argument bytes: the check establishes that the argument is exactly the frame; the algorithm is C14", "bounds as stated"},
		Bounds:  bounds,
		Items: func(c *Ctx) []Item {
			var items []Item
			for _, fc := range c.frameCases(true) {
				fc := fc
				items = append(items, Item{ID: fc.ID(), Run: func(c *Ctx) { frameCheck(c, fc, false, true) }})
			}
			return items
		}}
}

func frameCheck(c *Ctx, fc FrameCase, wantLen, wantSum bool) {
	h := c.newHarness(fc.MsgCase, "wide", fc.H)
	e := c.e()
	s := h.s
	fi := c.frameInfo(fc.Mod, fc.Typ)
	// consumed prefix
	if fc.R > 0 {
		var cons []*Term
		for i := 0; i < fc.R; i++ {
			cons = append(cons, e.freshVar("consumed", 8))
		}
		b := s.heap[h.bufID]
		b.B = VecBytes(append(cons, h.prior...))
		b.R = CI(int64(fc.R))
	}
	so := 0 // index shift of the replay steps
	if fc.NoReg {
		fn := c.w.fn("codec.Clear")
		if fn == nil {
			c.Inconclusive("codec.Clear not found")
			return
		}
		e.pushCall(s, fn, nil, nil)
		fin := e.Run(s)
		if len(fin) != 1 || fin[0].panicd != "" || fin[0].cut != "" {
			c.Inconclusive("codec.Clear did not run to a single result")
			return
		}
		s = fin[0]
		s.frames = nil
		s.acc, s.lockEvs, s.locks, s.trace = nil, nil, nil, nil
		so = 1
	}
	steps := func(val func(*Term) uint64) []map[string]any {
		st := h.encodeSteps(val)
		if fc.R > 0 {
			st[0]["hex"] = hexOf(make([]byte, fc.R)) + st[0]["hex"].(string)
			st[0]["consume"] = fc.R
		}
		if fc.NoReg {
			st = append([]map[string]any{step("op", "registry", "ops", []map[string]any{step("op", "Clear")})}, st...)
		}
		return st
	}
	bufPtr := &Ptr{Obj: h.bufID}
	e.pushCall(s, h.enc, []Value{h.mPtr, bufPtr}, nil)
	for _, fs := range e.Run(s) {
		if c.PathProblem(fs, "Encode", func(val func(*Term) uint64, msg string) *Violation {
			return &Violation{Obligation: "encode-no-panic", Detail: "frame Encode panics: " + msg, Replay: &ReplayReq{Steps: steps(val), Judge: Judge{Kind: "panic"}}}
		}) {
			continue
		}
		if !isNilErr(fs.ret) {
			c.Prove(fs, "encode-succeeds", False, func(val func(*Term) uint64) *Violation {
				return &Violation{Detail: "frame Encode returns an error", Replay: &ReplayReq{Steps: steps(val), Judge: Judge{Kind: "err_nonnil", Step: 2 + so}}}
			})
			continue
		}
		b := fs.heap[h.bufID]
		all := unread(b)
		A := SliceBytes(all, CI(int64(fc.H)), all.Len)
		c.Witness(fs, "frame encode", func(val func(*Term) uint64) any {
			return map[string]any{"input": h.g.Concretize(h.m, val), "prior_hex": hexOf(evalTerms(h.prior, val)), "appended_hex": hexOf(evalBytes(A, val))}
		})
		after := h.g.Snapshot(fs, h.mPtr, fc.Mod, fc.Typ)
		ts := c.sc.Mods[fc.Mod].Types[fc.Typ]
		little := ts.Little()
		// a computed field patched through a bytes.Buffer view that a later write may have invalidated: with the
		// small model message the buffer never grows and the patch lands; the candidate is replayed with the
		// message's lists and texts lengthened until the buffer has to grow
		for _, note := range fs.notes {
			if !strings.HasPrefix(note, "stale-view") {
				continue
			}
			note := note
			kind, ob := "frame_len", "length-patch-through-valid-view"
			if !wantLen {
				kind, ob = "frame_sum", "checksum-patch-through-valid-view"
			}
			c.Prove(fs, ob, False, func(val func(*Term) uint64) *Violation {
				grow := func(f func(any) any) []map[string]any {
					st := steps(val)
					out := make([]map[string]any, len(st))
					for i, sp := range st {
						cp := map[string]any{}
						for k, x := range sp {
							cp[k] = x
						}
						if cp["op"] == "newmsg" && cp["value"] != nil {
							cp["value"] = f(cp["value"])
						}
						out[i] = cp
					}
					return out
				}
				j := Judge{Kind: kind, Step: 2 + so, Frame: fi, Prior: fc.H}
				return &Violation{Detail: "a computed field of the frame is patched through a stale buffer view: " + note, Model: map[string]any{"input": h.g.Concretize(h.m, val)},
					Replay: &ReplayReq{Steps: steps(val), Judge: j,
						Alt: &ReplayReq{Steps: grow(func(v any) any { return inflate(v, 40) }), Judge: j,
							Alt: &ReplayReq{Steps: grow(func(v any) any { return inflateText(v, 700) }), Judge: j}}}}
			})
			break
		}
		if wantLen {
			n := Sub(A.Len, CI(int64(fi.HdrSize+fi.SumSize)))
			want := Extract(fi.LenSize*8-1, 0, n)
			wb := intBytes(want, little)
			var cs []*Term
			for j := 0; j < fi.LenSize; j++ {
				cs = append(cs, Eq(A.At(CI(int64(fi.LenOff+j))), wb[j]))
			}
			mk := func(what string) func(val func(*Term) uint64) *Violation {
				return func(val func(*Term) uint64) *Violation {
					return &Violation{Detail: what, Model: map[string]any{"input": h.g.Concretize(h.m, val), "prior_hex": hexOf(evalTerms(h.prior, val))},
						Replay: &ReplayReq{Steps: steps(val), Judge: Judge{Kind: "frame_len", Step: 2 + so, Frame: fi, Prior: fc.H}}}
				}
			}
			c.Prove(fs, "frame-at-least-header", Le(CI(int64(fi.HdrSize+fi.SumSize)), A.Len, true), mk("frame shorter than header plus trailer"))
			c.Prove(fs, "wire-length", And(cs...), mk("length field on the wire differs from the number of body bytes"))
			for i, f := range ts.Fields {
				if f.Kind == "computed_len" {
					c.Prove(fs, "object-length", Eq(after.F[i].T, want), mk("length field of the message object differs from the number of body bytes"))
				}
			}
		}
		if wantSum {
			sumOf := h.sumOracle(fs)
			frame := SliceBytes(A, CI(0), Sub(A.Len, CI(int64(fi.SumSize))))
			var sumField *FieldSpec
			var sumIdx int
			for i := range ts.Fields {
				if ts.Fields[i].Kind == "computed_sum" {
					sumField, sumIdx = &ts.Fields[i], i
				}
			}
			want := sumOf(sumField.Alg, frame)
			wb := intBytes(want, little)
			var cs []*Term
			for j := 0; j < fi.SumSize; j++ {
				cs = append(cs, Eq(A.At(Add(Sub(A.Len, CI(int64(fi.SumSize))), CI(int64(j)))), wb[j]))
			}
			mk := func(what string) func(val func(*Term) uint64) *Violation {
				return func(val func(*Term) uint64) *Violation {
					return &Violation{Detail: what, Model: map[string]any{"input": h.g.Concretize(h.m, val), "prior_hex": hexOf(evalTerms(h.prior, val))},
						Replay: &ReplayReq{Steps: steps(val), Judge: Judge{Kind: "frame_sum", Step: 2 + so, Frame: fi, Prior: fc.H}}}
				}
			}
			c.Prove(fs, "wire-checksum", And(cs...), mk("checksum on the wire differs from the algorithm applied to this frame's bytes"))
			c.Prove(fs, "object-checksum", Eq(after.F[sumIdx].T, want), mk("checksum field of the message object differs from the algorithm applied to this frame's bytes"))
		}
		// prior unread bytes untouched (needed to speak about "this frame's bytes" at all)
		var pcs []*Term
		for j := 0; j < fc.H; j++ {
			pcs = append(pcs, Eq(all.At(CI(int64(j))), h.prior[j]))
		}
		c.Prove(fs, "prior-bytes-untouched", And(pcs...), func(val func(*Term) uint64) *Violation {
			return &Violation{Detail: "frame Encode altered bytes that were already in the buffer",
				Replay: &ReplayReq{Steps: steps(val), Judge: Judge{Kind: "prefix_ne", Step: 2 + so, ExpectHex: hexOf(evalTerms(h.prior, val))}}}
		})
	}
}

// bodyHasPtrParts: the body type selected by the case's key has nested pointer parts.
func (c *Ctx) bodyHasPtrParts(mc MsgCase) bool {
	ms := c.sc.Mods[mc.Mod]
	bf := ms.Types[mc.Typ].BodyField()
	if bf == nil || mc.Key < 0 {
		return false
	}
	bt := ms.Types[ms.Tables[bf.Table].Entries[mc.Key][1].(string)]
	if bt == nil {
		return false
	}
	for _, f := range bt.Fields {
		if f.Kind == "nested" && f.Ptr {
			return true
		}
	}
	return false
}
