package main

import (
	"fmt"
	"os"
)

func main() {
	if len(os.Args) > 1 && os.Args[1] == "smoke" {
		w, err := LoadWorld("z3-new", 20000)
		if err != nil {
			fmt.Println("load:", err)
			os.Exit(2)
		}
		fmt.Printf("loaded in %.2fs; init steps %d; base objects %d; fns %d\n", w.loadS, w.nInit, len(w.base.heap), len(w.fns))
		smoke(w)
		return
	}
	os.Exit(runMain())
}
