package main

import (
	"fmt"
	"os"
	"runtime/pprof"
)

func main() {
	if len(os.Args) > 1 && os.Args[1] == "smoke" {
		w, err := LoadWorld("z3-new", 20000)
		if err != nil {
			fmt.Println("load:", err)
			os.Exit(2)
		}
		fmt.Printf("loaded in %.2fs; init steps %d; base objects %d; fns %d\n", w.loadS, w.nInit, len(w.base.heap), len(w.fns))
		smoke(w)
		return
	}
	if pf := os.Getenv("VF_PROF"); pf != "" && len(os.Args) > 1 && os.Args[1] == "-worker" {
		f, _ := os.Create(pf)
		pprof.StartCPUProfile(f)
		rc := runMain()
		pprof.StopCPUProfile()
		f.Close()
		os.Exit(rc)
	}
	os.Exit(runMain())
}
