package main

// Shared machinery of the message-level drivers: case enumeration, harness set-up, replay scripts.

import (
	"fmt"
	"go/types"
	"sort"
	"strings"

	"golang.org/x/tools/go/ssa"
)

type MsgCase struct {
	Mod, Typ string
	Key      int  // index into the type's own table (-1: type has no table)
	Inner    int  // index used for tables deeper in the value
	N        int  // uniform list length
	Mixed    int  // >0: mixed shape number (lists get lengths by position)
	PLen     int  // >0: prefixed text has the concrete length PLen-1 (byte-sum frames: keeps the checksum terms closed)
	NilParts bool // nested pointer parts of the value are absent
}

func (mc MsgCase) ID() string {
	s := mc.Mod + "." + mc.Typ
	if mc.Key >= 0 {
		s += fmt.Sprintf("/key=%d", mc.Key)
	}
	if mc.Inner > 0 {
		s += fmt.Sprintf("/inner=%d", mc.Inner)
	}
	s += fmt.Sprintf("/n=%d", mc.N)
	if mc.Mixed > 0 {
		s += fmt.Sprintf("/mix=%d", mc.Mixed)
	}
	if mc.PLen > 0 {
		s += fmt.Sprintf("/plen=%d", mc.PLen-1)
	}
	if mc.NilParts {
		s += "/nilparts"
	}
	return s
}

// typeHasLists: does the value tree rooted at mod.tn (with the given key choice) contain any list?
func (c *Ctx) treeInfo(mod, tn string, key, inner int, depth int) (lists int, pstr bool, tables int) {
	ms := c.sc.Mods[mod]
	ts := ms.Types[tn]
	for i := range ts.Fields {
		f := &ts.Fields[i]
		switch f.Kind {
		case "list_basic", "list_fixstr":
			lists++
		case "list_pstr":
			lists++
			pstr = true
		case "pstr":
			pstr = true
		case "list_obj":
			lists++
			l, p, t := c.treeInfo(mod, f.Elem, inner, inner, depth+1)
			lists, pstr, tables = lists+l, pstr || p, tables+t
		case "nested":
			l, p, t := c.treeInfo(mod, f.Type, inner, inner, depth+1)
			lists, pstr, tables = lists+l, pstr || p, tables+t
		case "body":
			tab := ms.Tables[f.Table]
			k := key
			if depth > 0 {
				k = inner
			}
			if k < 0 {
				continue
			}
			if depth > 0 {
				tables++
			}
			bt := tab.Entries[k%len(tab.Entries)][1].(string)
			l, p, t := c.treeInfo(mod, bt, inner, inner, depth+1)
			lists, pstr, tables = lists+l, pstr || p, tables+t
		}
	}
	return
}

func ownsObjList(ts *TypeSpec) bool {
	for i := range ts.Fields {
		if ts.Fields[i].Kind == "list_obj" {
			return true
		}
	}
	return false
}

// msgCases enumerates (type, key, shape) for all 170 types.
// shapes: uniform list lengths ns; innerAll: explore every key of nested tables too (frame x extension).
func (c *Ctx) msgCases(ns []int, innerAll bool, mixed bool) []MsgCase {
	var out []MsgCase
	for _, mod := range modules {
		ms := c.sc.Mods[mod]
		for _, tn := range ms.TypeNames() {
			ts := ms.Types[tn]
			nkeys := 0
			if bf := ts.BodyField(); bf != nil {
				nkeys = len(ms.Tables[bf.Table].Entries)
			}
			keys := []int{-1}
			if nkeys > 0 {
				keys = nil
				for k := 0; k < nkeys; k++ {
					keys = append(keys, k)
				}
			}
			for _, k := range keys {
				inners := []int{0}
				if innerAll {
					_, _, tabs := c.treeInfo(mod, tn, k, 0, 0)
					if tabs > 0 {
						// number of keys of the inner table (the body type's own table)
						bf := ts.BodyField()
						bt := ms.Tables[bf.Table].Entries[k][1].(string)
						if ibf := ms.Types[bt].BodyField(); ibf != nil {
							inners = nil
							for q := 0; q < len(ms.Tables[ibf.Table].Entries); q++ {
								inners = append(inners, q)
							}
						}
					}
				}
				for _, in := range inners {
					lists, pstr, _ := c.treeInfo(mod, tn, k, in, 0)
					if fi := c.frameInfo(mod, tn); innerAll && pstr && fi != nil && (fi.Alg == "SSE_BIN" || fi.Alg == "SZSE_BIN") {
						// byte-sum frame carrying prefixed text: one item per concrete text length
						for pl := 0; pl <= 12; pl++ {
							out = append(out, MsgCase{Mod: mod, Typ: tn, Key: k, Inner: in, PLen: pl + 1})
						}
						continue
					}
					if lists == 0 {
						out = append(out, MsgCase{Mod: mod, Typ: tn, Key: k, Inner: in})
						continue
					}
					for _, n := range ns {
						out = append(out, MsgCase{Mod: mod, Typ: tn, Key: k, Inner: in, N: n})
					}
					// a type that owns a list of objects: also lists long enough to cross small block / batch sizes
					// (element factories that hand out slots of a reused block alias from the 5th or 9th element on)
					if ownsObjList(ts) && len(ns) > 1 {
						for _, n := range []int{5, 9} {
							out = append(out, MsgCase{Mod: mod, Typ: tn, Key: k, Inner: in, N: n})
						}
					}
					if mixed && lists > 1 {
						// mixed shapes: one list of length 1 or 2 at each position in turn, the rest empty; (1,1,0..)
						for p := 1; p <= min(lists, 16); p++ {
							out = append(out, MsgCase{Mod: mod, Typ: tn, Key: k, Inner: in, Mixed: p})
						}
					}
				}
			}
		}
	}
	return out
}

func (c *Ctx) newGen(mc MsgCase, dom string) *Gen {
	P := 4
	if c.thorough() {
		P = 12
	}
	g := &Gen{w: c.w, sc: c.sc, Dom: dom, P: P, Slack: 0, PLen: mc.PLen - 1, FixLen: c.fixLen, NilParts: mc.NilParts}
	if dom == "wide" {
		g.Slack = 2
	}
	counter := 0
	g.ListLen = func(path string, f *FieldSpec) int {
		counter++
		if mc.Mixed > 0 {
			if counter == mc.Mixed {
				return 2
			}
			if counter == mc.Mixed+1 {
				return 1
			}
			return 0
		}
		return mc.N
	}
	g.KeyOf = func(tab *TableSpec, path string) int {
		if path == "" {
			return mc.Key
		}
		return mc.Inner % len(tab.Entries)
	}
	return g
}

type harness struct {
	c     *Ctx
	mc    MsgCase
	g     *Gen
	s     *State
	m     *SVal
	mPtr  *Ptr
	bufID int
	enc   *ssa.Function
	dec   *ssa.Function
	T     types.Type
	ref   *Ref
	prior []*Term // symbolic unread bytes present before the encode
}

func (c *Ctx) newHarness(mc MsgCase, dom string, H int) *harness {
	h := &harness{c: c, mc: mc}
	h.g = c.newGen(mc, dom)
	h.s = c.w.newState()
	h.T = c.w.typeOf(mc.Mod, mc.Typ)
	if h.T == nil {
		panic(bindErr("type " + mc.Mod + "." + mc.Typ + " not found in the tree"))
	}
	h.enc = c.w.method(mc.Mod, mc.Typ, "Encode")
	h.dec = c.w.method(mc.Mod, mc.Typ, "Decode")
	if h.enc == nil || h.dec == nil {
		panic(bindErr("Encode/Decode method of " + mc.Mod + "." + mc.Typ + " not found"))
	}
	h.m = h.g.Object(h.s, mc.Mod, mc.Typ, "")
	h.mPtr = h.g.MaterializePtr(h.s, h.m)
	for i := 0; i < H; i++ {
		h.prior = append(h.prior, c.e().freshVar("prior", 8))
	}
	h.bufID = h.s.newObj(&Obj{Kind: kBuffer, B: VecBytes(append([]*Term{}, h.prior...)), R: CI(0)})
	h.ref = &Ref{sc: c.sc, g: h.g}
	return h
}

func (h *harness) freshReceiver(s *State) *Ptr {
	return &Ptr{Obj: s.newObj(&Obj{Kind: kCell, Val: h.c.e().zero(h.T)})}
}

func isNilErr(v Value) bool {
	iv, ok := v.(*IfaceV)
	return ok && iv.T == nil
}

// sumOracle: reference checksum over the frame bytes, evaluated in state s.
func (h *harness) sumOracle(s *State) func(alg string, frame *Bytes) *Term {
	return func(alg string, frame *Bytes) *Term {
		switch alg {
		case "SSE_BIN", "SZSE_BIN":
			return ZExt(sum8(frame, 4096), 32)
		case "CRC32":
			return h.c.crcOf(s, frame)
		}
		panic("unknown checksum algorithm " + alg)
	}
}

// crcOf: CRC-32 as an uninterpreted function of the byte sequence: reuse the result variable of a
// real call whose argument is provably the same sequence, else a fresh unrelated value.
func (c *Ctx) crcOf(s *State, data *Bytes) *Term {
	d := data.Norm()
	if r := c.e().crcLookup(s, d); r != nil {
		return r
	}
	if d.Vec != nil && len(d.Vec) <= 16 {
		return crc32Model(d.Vec)
	}
	return c.e().freshVar("crc32ref", 32)
}

// frameInfo describes where the computed fields of a frame type sit (for concrete judges).
type FrameInfo struct {
	LenOff, LenSize int
	HdrSize         int
	SumSize         int
	Little          bool
	Alg             string
	LenField        string
	SumField        string
}

func (c *Ctx) frameInfo(mod, tn string) *FrameInfo {
	ts := c.sc.Mods[mod].Types[tn]
	fi := &FrameInfo{Little: ts.Little(), LenOff: -1}
	pos := 0
	seenBody := false
	for _, f := range ts.Fields {
		switch f.Kind {
		case "int", "float":
			if !seenBody {
				pos += typeWidth(f.Type) / 8
			} else {
				fi.SumSize += typeWidth(f.Type) / 8
			}
		case "computed_len":
			fi.LenOff, fi.LenSize, fi.LenField = pos, typeWidth(f.Type)/8, f.Go
			pos += fi.LenSize
		case "body":
			seenBody = true
			fi.HdrSize = pos
		case "computed_sum":
			fi.SumSize += typeWidth(f.Type) / 8
			fi.Alg, fi.SumField = f.Alg, f.Go
		default:
			return nil
		}
	}
	if !seenBody {
		return nil
	}
	return fi
}

// ---------------------------------------------------------------- replay scripts

func step(kv ...any) map[string]any {
	m := map[string]any{}
	for i := 0; i+1 < len(kv); i += 2 {
		m[kv[i].(string)] = kv[i+1]
	}
	return m
}

func hexOf(bs []byte) string {
	const digits = "0123456789abcdef"
	var sb strings.Builder
	for _, b := range bs {
		sb.WriteByte(digits[b>>4])
		sb.WriteByte(digits[b&15])
	}
	return sb.String()
}

func evalBytes(b *Bytes, val func(*Term) uint64) []byte {
	n := int(val(b.Len))
	if n < 0 || n > 1<<20 {
		n = 0
	}
	out := make([]byte, n)
	for i := range out {
		out[i] = byte(val(b.At(CI(int64(i)))))
	}
	return out
}

func evalTerms(ts []*Term, val func(*Term) uint64) []byte {
	out := make([]byte, len(ts))
	for i, t := range ts {
		out[i] = byte(val(t))
	}
	return out
}

func sortedKeys(m map[string]int) []string {
	var ks []string
	for k := range m {
		ks = append(ks, k)
	}
	sort.Strings(ks)
	return ks
}

// expectedFromWire: the original value with the frame's computed fields replaced by their correct values
// for the bytes A that Encode actually appended: length = number of body bytes, checksum = algorithm over
// the frame bytes before the trailer (layout conformance of A itself is C02's business).
func (h *harness) expectedFromWire(s *State, A *Bytes) *SVal {
	fi := h.c.frameInfo(h.mc.Mod, h.mc.Typ)
	ts := h.c.sc.Mods[h.mc.Mod].Types[h.mc.Typ]
	if fi == nil || (fi.LenOff < 0 && fi.Alg == "") {
		return h.m
	}
	c := *h.m
	c.F = append([]*SVal{}, h.m.F...)
	sumOf := h.sumOracle(s)
	for i, f := range ts.Fields {
		switch f.Kind {
		case "computed_len":
			n := Sub(A.Len, CI(int64(fi.HdrSize+fi.SumSize)))
			c.F[i] = &SVal{K: 'i', T: Extract(typeWidth(f.Type)-1, 0, n)}
		case "computed_sum":
			frame := SliceBytes(A, CI(0), Sub(A.Len, CI(int64(fi.SumSize))))
			c.F[i] = &SVal{K: 'i', T: sumOf(f.Alg, frame)}
		}
	}
	return &c
}
