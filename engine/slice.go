package main

// Constraint independence: a query only needs the path-condition conjuncts that (transitively) share
// variables with the condition being decided; the rest is satisfiable by construction of the path.

var varsMemo = map[int][]int{}

func varsOf(t *Term) []int {
	if v, ok := varsMemo[t.id]; ok {
		return v
	}
	var out []int
	switch t.Op {
	case "var":
		out = []int{t.id}
	case "const", "true", "false":
	default:
		seen := map[int]bool{}
		for _, a := range t.Args {
			for _, v := range varsOf(a) {
				if !seen[v] {
					seen[v] = true
					out = append(out, v)
				}
			}
		}
	}
	varsMemo[t.id] = out
	return out
}

// sliceFor returns the conjuncts of pc relevant to the extra terms.
func sliceFor(pc []*Term, extra []*Term) []*Term {
	S := map[int]bool{}
	for _, e := range extra {
		for _, v := range varsOf(e) {
			S[v] = true
		}
	}
	if len(S) == 0 {
		return nil
	}
	used := make([]bool, len(pc))
	for changed := true; changed; {
		changed = false
		for i, c := range pc {
			if used[i] {
				continue
			}
			vs := varsOf(c)
			hit := false
			for _, v := range vs {
				if S[v] {
					hit = true
					break
				}
			}
			if hit {
				used[i] = true
				changed = true
				for _, v := range vs {
					S[v] = true
				}
			}
		}
	}
	var out []*Term
	for i, c := range pc {
		if used[i] {
			out = append(out, c)
		}
	}
	return out
}
