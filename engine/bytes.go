package main

// Bytes: functional byte sequence (Len term, At closure). If Vec != nil the length is concrete.

type Bytes struct {
	Len *Term // 64-bit
	Vec []*Term
	At  func(i *Term) *Term // defined for 0 <= i < Len
	// when the sequence is a window of another one: this == Base[BaseOff : BaseOff+Len]
	Base    *Bytes
	BaseOff *Term
	// vb: growable array shared by the vectors that are prefixes of one another (a buffer after each write):
	// appending in place is allowed only to the holder whose end is the array's end, so earlier prefixes
	// are never disturbed and a long sequence of writes costs amortised O(bytes written)
	vb *vecBacking
	// pre: a vector known to be a prefix of this (non-vector) sequence: Norm materialises only the rest
	pre *Bytes
}

type vecBacking struct{ data []*Term }

func (b *Bytes) withBase(base *Bytes, off *Term) *Bytes {
	if base.Base != nil {
		b.Base, b.BaseOff = base.Base, Add(base.BaseOff, off)
	} else {
		b.Base, b.BaseOff = base, off
	}
	return b
}

func VecBytes(v []*Term) *Bytes {
	b := &Bytes{Len: CI(int64(len(v))), Vec: v}
	b.At = memoAt(func(i *Term) *Term {
		if i.IsConst() {
			if int64(i.Val) < 0 || int64(i.Val) >= int64(len(v)) {
				return C(8, 0)
			}
			return v[int(i.Val)]
		}
		// a vector that is a window of one SMT array reads back as a select (no ite chain)
		if len(v) > 0 {
			if arr, base, ok := arrayWindow(v); ok {
				return Select(arr, Add(i, CI(base)))
			}
		}
		lo, hi := 0, len(v)-1
		if l, h, ok := boundsOf(i); ok {
			if l > int64(lo) {
				lo = int(l)
			}
			if h < int64(hi) {
				hi = int(h)
			}
		}
		var r *Term = C(8, 0)
		first := true
		for j := hi; j >= lo; j-- {
			if first {
				r = v[j]
				first = false
				continue
			}
			r = Ite(Eq(i, CI(int64(j))), v[j], r)
		}
		return r
	})
	return b
}
func EmptyBytes() *Bytes { return VecBytes(nil) }

// memoAt caches At results per index term: merged and concatenated sequences share long prefixes, and
// without the cache a read walks both arms of every merge (exponential in the number of merges).
func memoAt(f func(i *Term) *Term) func(i *Term) *Term {
	cache := map[*Term]*Term{}
	return func(i *Term) *Term {
		if r, ok := cache[i]; ok {
			return r
		}
		r := f(i)
		cache[i] = r
		return r
	}
}
func ConstBytes(s string) *Bytes {
	v := make([]*Term, len(s))
	for i := 0; i < len(s); i++ {
		v[i] = C(8, uint64(s[i]))
	}
	return VecBytes(v)
}
func (b *Bytes) ConstLen() (int, bool) {
	if b.Len.IsConst() {
		return int(b.Len.Val), true
	}
	return 0, false
}

const normLimit = 1 << 16

func (b *Bytes) Norm() *Bytes {
	if b.Vec != nil {
		return b
	}
	if n, ok := b.ConstLen(); ok && n >= 0 && n <= normLimit {
		if b.pre != nil && len(b.pre.Vec) <= n {
			k := len(b.pre.Vec)
			tail := make([]*Term, n-k)
			for i := k; i < n; i++ {
				tail[i-k] = b.At(CI(int64(i)))
			}
			return Concat2(b.pre, VecBytes(tail))
		}
		v := make([]*Term, n)
		for i := 0; i < n; i++ {
			v[i] = b.At(CI(int64(i)))
		}
		return VecBytes(v)
	}
	return b
}
func Concat2(a, b *Bytes) *Bytes {
	if a.Vec != nil && b.Vec == nil {
		// materialise only the appended part (not the whole result through closures)
		if n, ok := b.ConstLen(); ok && n >= 0 && n+len(a.Vec) <= normLimit {
			b = b.Norm()
		}
	}
	if a.Vec != nil && b.Vec != nil {
		if len(b.Vec) == 0 {
			return a
		}
		if len(a.Vec) == 0 {
			return b
		}
		bk := a.vb
		if bk == nil || len(bk.data) != len(a.Vec) {
			bk = &vecBacking{data: make([]*Term, len(a.Vec), 2*(len(a.Vec)+len(b.Vec)))}
			copy(bk.data, a.Vec)
		}
		bk.data = append(bk.data, b.Vec...)
		r := VecBytes(bk.data[:len(bk.data):len(bk.data)])
		r.vb = bk
		return r
	}
	if n, ok := a.ConstLen(); ok && n == 0 {
		return b
	}
	if n, ok := b.ConstLen(); ok && n == 0 {
		return a
	}
	r := &Bytes{Len: Add(a.Len, b.Len)}
	r.At = memoAt(func(i *Term) *Term {
		c := Lt(i, a.Len, true)
		if c == True {
			return a.At(i)
		}
		if c == False {
			return b.At(Sub(i, a.Len))
		}
		return Ite(c, a.At(i), b.At(Sub(i, a.Len)))
	})
	if a.Vec != nil {
		r.pre = a
	} else {
		r.pre = a.pre
	}
	return r.Norm()
}
func SliceBytes(a *Bytes, lo, hi *Term) *Bytes {
	if a.Vec != nil && lo.IsConst() && hi.IsConst() {
		l, h := int64(lo.Val), int64(hi.Val)
		if l >= 0 && l <= h && h <= int64(len(a.Vec)) {
			if l == 0 && h == int64(len(a.Vec)) {
				return a
			}
			return VecBytes(a.Vec[l:h]).withBase(a, lo)
		}
	}
	if lo.IsConst() && lo.Val == 0 && hi == a.Len {
		return a
	}
	r := &Bytes{Len: Sub(hi, lo)}
	r.At = memoAt(func(i *Term) *Term { return a.At(Add(i, lo)) })
	n := r.Norm()
	if n.Base == nil {
		n.withBase(a, lo)
	}
	return n
}
func RepeatByte(p *Term, n *Term) *Bytes {
	r := &Bytes{Len: n}
	r.At = memoAt(func(i *Term) *Term { return p })
	return r.Norm()
}

// UpdateBytes overwrites len(vals) bytes starting at pos.
func UpdateBytes(a *Bytes, pos *Term, vals []*Term) *Bytes {
	if a.Vec != nil && pos.IsConst() {
		v := append([]*Term{}, a.Vec...)
		for k, x := range vals {
			v[int(pos.Val)+k] = x
		}
		return VecBytes(v)
	}
	r := &Bytes{Len: a.Len}
	r.At = memoAt(func(i *Term) *Term {
		res := a.At(i)
		for k := len(vals) - 1; k >= 0; k-- {
			res = Ite(Eq(i, Add(pos, CI(int64(k)))), vals[k], res)
		}
		return res
	})
	return r.Norm()
}

// OverwriteBytes replaces a[pos:pos+src.Len] by src (src.Len may be symbolic).
func OverwriteBytes(a *Bytes, pos *Term, src *Bytes) *Bytes {
	if src.Vec != nil {
		return UpdateBytes(a, pos, src.Vec)
	}
	end := Add(pos, src.Len)
	return Concat2(Concat2(SliceBytes(a, CI(0), pos), src), SliceBytes(a, end, a.Len))
}

func MergeBytes(c *Term, a, b *Bytes) *Bytes {
	if a == b {
		return a
	}
	if a.Vec != nil && b.Vec != nil && len(a.Vec) == len(b.Vec) {
		v := make([]*Term, len(a.Vec))
		for i := range v {
			v[i] = Ite(c, a.Vec[i], b.Vec[i])
		}
		return VecBytes(v)
	}
	if a.Base != nil && a.Base == b.Base {
		// two windows of the same sequence: one window with a merged offset (reads stay single selects)
		off := Ite(c, a.BaseOff, b.BaseOff)
		ln := Ite(c, a.Len, b.Len)
		base := a.Base
		r := &Bytes{Len: ln, Base: base, BaseOff: off}
		r.At = memoAt(func(i *Term) *Term { return base.At(Add(i, off)) })
		return r
	}
	r := &Bytes{Len: Ite(c, a.Len, b.Len)}
	r.At = memoAt(func(i *Term) *Term { return Ite(c, a.At(i), b.At(i)) })
	return r.Norm()
}

var windowMemo = map[*Term]struct {
	arr  *Term
	base int64
	n    int
	ok   bool
}{}

// arrayWindow: v[j] == select(arr, base+j) for all j (checked once per vector, keyed by its first element and length).
func arrayWindow(v []*Term) (*Term, int64, bool) {
	f := v[0]
	if f.Op != "select" || !f.Args[1].IsConst() {
		return nil, 0, false
	}
	if m, ok := windowMemo[f]; ok && m.n == len(v) {
		return m.arr, m.base, m.ok
	}
	arr, base := f.Args[0], int64(f.Args[1].Val)
	ok := true
	for j, x := range v {
		if x.Op != "select" || x.Args[0] != arr || !x.Args[1].IsConst() || int64(x.Args[1].Val) != base+int64(j) {
			ok = false
			break
		}
	}
	windowMemo[f] = struct {
		arr  *Term
		base int64
		n    int
		ok   bool
	}{arr, base, len(v), ok}
	return arr, base, ok
}
