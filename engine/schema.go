package main

// The pinned wire schema (frozen JSON under /verif/schema, never regenerated at check time).

import (
	"encoding/json"
	"fmt"
	"os"
	"path/filepath"
	"sort"
)

type FieldSpec struct {
	Kind   string `json:"kind"`
	Go     string `json:"go"`
	Wire   string `json:"wire"`
	Type   string `json:"type,omitempty"`
	Width  int    `json:"width,omitempty"`
	Pad    int    `json:"pad,omitempty"`
	Left   bool   `json:"left,omitempty"`
	Prefix string `json:"prefix,omitempty"`
	Count  string `json:"count,omitempty"`
	Elem   string `json:"elem,omitempty"`
	Ptr    bool   `json:"ptr,omitempty"`
	Table  string `json:"table,omitempty"`
	Key    string `json:"key,omitempty"`
	Fill   bool   `json:"fill,omitempty"`
	Alg    string `json:"alg,omitempty"`
}

type TypeSpec struct {
	Name        string
	Mod         *ModSpec
	Fields      []FieldSpec `json:"fields"`
	Frame       bool        `json:"frame,omitempty"`
	ByteOrder   string      `json:"byte_order,omitempty"`
	Handwritten bool        `json:"handwritten,omitempty"`
}

type TableSpec struct {
	Name    string
	Owner   string  `json:"owner"`
	KeyKind string  `json:"key_kind"`
	KeyType string  `json:"key_type"`
	NewFn   string  `json:"new_fn"`
	Entries [][]any `json:"entries"`
}

type ModSpec struct {
	Module    string                `json:"module"`
	Package   string                `json:"package"`
	Pinned    string                `json:"pinned_commit"`
	Protocol  string                `json:"protocol"`
	ByteOrder string                `json:"byte_order"`
	Types     map[string]*TypeSpec  `json:"types"`
	Tables    map[string]*TableSpec `json:"tables"`
}

type Schema struct {
	Mods map[string]*ModSpec
}

func verifDir() string {
	if d := os.Getenv("VERIF_DIR"); d != "" {
		return d
	}
	exe, err := os.Executable()
	if err == nil {
		d := filepath.Dir(filepath.Dir(exe))
		if _, err := os.Stat(filepath.Join(d, "schema")); err == nil {
			return d
		}
	}
	return "/verif"
}

func LoadSchema() (*Schema, error) {
	sc := &Schema{Mods: map[string]*ModSpec{}}
	for _, m := range modules {
		raw, err := os.ReadFile(filepath.Join(verifDir(), "schema", m+".json"))
		if err != nil {
			return nil, err
		}
		var ms ModSpec
		if err := json.Unmarshal(raw, &ms); err != nil {
			return nil, fmt.Errorf("%s: %v", m, err)
		}
		for n, t := range ms.Types {
			t.Name, t.Mod = n, &ms
		}
		for n, t := range ms.Tables {
			t.Name = n
		}
		sc.Mods[m] = &ms
	}
	return sc, nil
}

func (t *TypeSpec) Little() bool {
	if t.ByteOrder != "" {
		return t.ByteOrder == "little"
	}
	return t.Mod.ByteOrder == "little"
}

func (m *ModSpec) TypeNames() []string {
	var ns []string
	for n := range m.Types {
		ns = append(ns, n)
	}
	sort.Strings(ns)
	return ns
}
func (m *ModSpec) TableNames() []string {
	var ns []string
	for n := range m.Tables {
		ns = append(ns, n)
	}
	sort.Strings(ns)
	return ns
}

// BodyField returns the discriminated field of the type, if any.
func (t *TypeSpec) BodyField() *FieldSpec {
	for i := range t.Fields {
		if t.Fields[i].Kind == "body" {
			return &t.Fields[i]
		}
	}
	return nil
}
func (t *TypeSpec) Field(goName string) *FieldSpec {
	for i := range t.Fields {
		if t.Fields[i].Go == goName {
			return &t.Fields[i]
		}
	}
	return nil
}

func (t *TypeSpec) HasLists() bool {
	return t.hasKind(map[string]bool{}, "list_basic", "list_fixstr", "list_pstr", "list_obj")
}
func (t *TypeSpec) HasPstr() bool {
	return t.hasKind(map[string]bool{}, "pstr", "list_pstr")
}
func (t *TypeSpec) hasKind(seen map[string]bool, kinds ...string) bool {
	if seen[t.Name] {
		return false
	}
	seen[t.Name] = true
	for _, f := range t.Fields {
		for _, k := range kinds {
			if f.Kind == k {
				return true
			}
		}
		switch f.Kind {
		case "nested":
			if t.Mod.Types[f.Type].hasKind(seen, kinds...) {
				return true
			}
		case "list_obj":
			if t.Mod.Types[f.Elem].hasKind(seen, kinds...) {
				return true
			}
		}
	}
	return false
}

func typeWidth(name string) int {
	switch name {
	case "int8", "uint8", "byte", "ZzU8":
		return 8
	case "int16", "uint16":
		return 16
	case "int32", "uint32", "float32":
		return 32
	case "int64", "uint64", "float64":
		return 64
	}
	panic("typeWidth " + name)
}

// keyString renders a table key (string or number) for item names.
func keyString(k any) string {
	switch v := k.(type) {
	case string:
		return v
	case float64:
		return fmt.Sprintf("%d", int64(v))
	}
	return fmt.Sprint(k)
}
