package main

// Native replay: builds vfrun against the tree under test, runs the concrete counterexample and lets the
// oracle (Judge) decide whether the real code exhibits the violation.

import (
	"bytes"
	"encoding/hex"
	"encoding/json"
	"fmt"
	"go/types"
	"hash/crc32"
	"os"
	"os/exec"
	"path/filepath"
	"reflect"
	"sort"
	"strings"
	"time"
)

type Judge struct {
	Kind      string     `json:"kind"`
	Step      int        `json:"step"`
	Step2     int        `json:"step2,omitempty"`
	ExpectHex string     `json:"expect_hex,omitempty"`
	ExpectMsg any        `json:"expect_msg,omitempty"`
	ExpectRet any        `json:"expect_ret,omitempty"`
	Bound     uint64     `json:"bound,omitempty"`
	Note      string     `json:"note,omitempty"`
	Ignore    []string   `json:"ignore,omitempty"` // top-level fields left out of message comparisons
	Frame     *FrameInfo `json:"frame,omitempty"`
	Prior     int        `json:"prior,omitempty"` // unread bytes that were in the buffer before the frame
	Steps     []int      `json:"steps,omitempty"` // same_as_step: every listed step is compared
}

type ReplayReq struct {
	Steps []map[string]any `json:"steps"`
	Judge Judge            `json:"judge"`
	// Alt: a second script for the same candidate, tried when the first does not reproduce (e.g. the same
	// message with its lists lengthened so that a buffer really has to grow)
	Alt *ReplayReq `json:"alt,omitempty"`
	// Dirty: reproduced with buffers whose spare capacity holds non-zero bytes (VFRUN_DIRTY=1)
	Dirty string `json:"dirty_spare,omitempty"`
}

type RunResult struct {
	Err   *string `json:"err"`
	Panic *string `json:"panic"`
	Buf   string  `json:"buf"`
	Msg   any     `json:"msg"`
	Alloc uint64  `json:"alloc"`
	Ret   any     `json:"ret"`
	Note  string  `json:"note"`
}

var runnerBin string
var runnerDir string
var runnerErr error

func scratchRoot() string {
	return filepath.Join(verifDir(), "scratch")
}

func genRegistry(w *World) string {
	var sb strings.Builder
	sb.WriteString("package main\n\nimport (\n\t\"bytes\"\n\t\"github.com/xinchentechnote/fin-proto-go/codec\"\n")
	for i, m := range modules {
		fmt.Fprintf(&sb, "\tm%d \"%s/%s/messages\"\n", i, modPath, m)
	}
	sb.WriteString(")\n\n")
	sb.WriteString("type ZzObj struct{ V uint16 }\n")
	sb.WriteString("func (o *ZzObj) Encode(buf *bytes.Buffer) error {\n\tif o.V == 0xFFFF {\n\t\treturn errZzRefuse\n\t}\n\treturn codec.WriteBasicType(buf, o.V)\n}\n")
	sb.WriteString("var errZzRefuse error = zzErr{}\ntype zzErr struct{}\nfunc (zzErr) Error() string { return \"zz: element refuses to encode\" }\n")
	sb.WriteString("func (o *ZzObj) Decode(buf *bytes.Buffer) error { v, err := codec.ReadBasicType[uint16](buf); o.V = v; return err }\n\n")
	sb.WriteString("var primNew = map[string]any{\"func() *main.ZzObj\": func() *ZzObj { return &ZzObj{} }}\n\n")
	sb.WriteString("var registry = map[string]map[string]func() any{\n")
	var ctors strings.Builder
	ctors.WriteString("var ctors = map[string]map[string]func() any{\n")
	for i, m := range modules {
		p := w.pkgs[m]
		fmt.Fprintf(&sb, "\t%q: {\n", m)
		fmt.Fprintf(&ctors, "\t%q: {\n", m)
		var names []string
		for n, mem := range p.Members {
			if _, ok := mem.(interface{ Type() types.Type }); ok {
				names = append(names, n)
			}
		}
		sort.Strings(names)
		for _, n := range names {
			tm := p.Type(n)
			if tm == nil {
				continue
			}
			if _, isStruct := tm.Type().Underlying().(*types.Struct); !isStruct || !tm.Object().Exported() {
				continue
			}
			ms := types.NewMethodSet(types.NewPointer(tm.Type()))
			if ms.Lookup(p.Pkg, "Decode") == nil || ms.Lookup(p.Pkg, "Encode") == nil {
				continue
			}
			fmt.Fprintf(&sb, "\t\t%q: func() any { return new(m%d.%s) },\n", n, i, n)
			if c := p.Func("New" + n); c != nil && c.Signature.Params().Len() == 0 && c.Signature.Results().Len() == 1 {
				fmt.Fprintf(&ctors, "\t\t%q: func() any { return m%d.New%s() },\n", n, i, n)
			}
		}
		sb.WriteString("\t},\n")
		ctors.WriteString("\t},\n")
	}
	sb.WriteString("}\n\n")
	ctors.WriteString("}\n\n")
	sb.WriteString(ctors.String())
	// discriminator factories
	sb.WriteString("var factories = map[string]map[string]any{\n")
	for i, m := range modules {
		p := w.pkgs[m]
		fmt.Fprintf(&sb, "\t%q: {\n", m)
		var names []string
		for n := range p.Members {
			names = append(names, n)
		}
		sort.Strings(names)
		for _, n := range names {
			fn := p.Func(n)
			if fn == nil || !strings.HasPrefix(n, "New") || !strings.Contains(n, "MessageBy") || fn.Signature.Params().Len() != 1 || fn.Signature.Results().Len() != 2 {
				continue
			}
			fmt.Fprintf(&sb, "\t\t%q: m%d.%s,\n", n, i, n)
		}
		sb.WriteString("\t},\n")
	}
	sb.WriteString("}\n\n")
	// public registration functions of the discriminator tables (lock probes)
	sb.WriteString("var registrars = map[string]map[string]any{\n")
	for i, m := range modules {
		p := w.pkgs[m]
		fmt.Fprintf(&sb, "\t%q: {\n", m)
		var names []string
		for n := range p.Members {
			names = append(names, n)
		}
		sort.Strings(names)
		for _, n := range names {
			fn := p.Func(n)
			if fn == nil || !strings.HasPrefix(n, "Registry") || !strings.HasSuffix(n, "Factory") || fn.Signature.Params().Len() != 2 || fn.Signature.Results().Len() != 0 {
				continue
			}
			if _, ok := fn.Signature.Params().At(1).Type().Underlying().(*types.Signature); !ok {
				continue
			}
			fmt.Fprintf(&sb, "\t\t%q: m%d.%s,\n", n, i, n)
		}
		sb.WriteString("\t},\n")
	}
	sb.WriteString("}\n\n")
	// primitives
	sb.WriteString("var prims = map[string]any{\n")
	cp := w.pkgs["codec"].Pkg
	scope := cp.Scope()
	for _, n := range scope.Names() {
		fn, ok := scope.Lookup(n).(*types.Func)
		if !ok || !fn.Exported() || strings.HasPrefix(n, "NewZz") {
			continue
		}
		sig := fn.Type().(*types.Signature)
		if sig.Params().Len() == 0 || sig.Params().At(0).Type().String() != "*bytes.Buffer" {
			continue
		}
		tps := sig.TypeParams()
		if tps.Len() == 0 {
			fmt.Fprintf(&sb, "\t%q: codec.%s,\n", n, n)
			continue
		}
		combos := [][]string{{}}
		valid := true
		for i := 0; i < tps.Len(); i++ {
			c := tps.At(i).Constraint().String()
			var dom []string
			switch {
			case strings.HasSuffix(c, "constraints.Unsigned"):
				dom = prefixTypes
			case strings.HasSuffix(c, "codec.BasicType"):
				dom = basicElems
			case strings.HasSuffix(c, "codec.BinaryCodec"):
				dom = []string{"*ZzObj"}
			default:
				valid = false
			}
			var next [][]string
			for _, cb := range combos {
				for _, d := range dom {
					next = append(next, append(append([]string{}, cb...), d))
				}
			}
			combos = next
		}
		if !valid {
			continue
		}
		for _, cb := range combos {
			inst := strings.Join(cb, ", ")
			key := strings.ReplaceAll(n+"["+strings.Join(cb, ",")+"]", "*ZzObj", "*ZzObj")
			fmt.Fprintf(&sb, "\t%q: codec.%s[%s],\n", key, n, inst)
		}
		// the named prefix type (see the overlay): a few writers only
		switch {
		case (n == "WriteString" || n == "WriteStringLE") && tps.Len() == 1:
			fmt.Fprintf(&sb, "\t%q: codec.%s[ZzU8],\n", n+"[ZzU8]", n)
		case (n == "WriteBasicTypeList" || n == "WriteBasicTypeListLE") && tps.Len() == 2:
			fmt.Fprintf(&sb, "\t%q: codec.%s[ZzU8, uint16],\n", n+"[ZzU8,uint16]", n)
		case (n == "WriteObjectList" || n == "WriteObjectListLE") && tps.Len() == 2:
			fmt.Fprintf(&sb, "\t%q: codec.%s[ZzU8, *ZzObj],\n", n+"[ZzU8,*ZzObj]", n)
		}
	}
	sb.WriteString("}\n\ntype ZzU8 uint8\n")
	return sb.String()
}

// buildRunner builds vfrun for the current tree in a scratch directory (removed by cleanupRunner).
func buildRunner(w *World) (string, error) {
	if runnerBin != "" || runnerErr != nil {
		return runnerBin, runnerErr
	}
	dir := filepath.Join(scratchRoot(), fmt.Sprintf("vfrun-%d", os.Getpid()))
	runnerDir = dir
	os.MkdirAll(dir, 0o755)
	fail := func(err error) (string, error) {
		runnerErr = err
		return "", err
	}
	src, err := os.ReadFile(filepath.Join(verifDir(), "runner", "main.go"))
	if err != nil {
		return fail(err)
	}
	os.WriteFile(filepath.Join(dir, "main.go"), src, 0o644)
	os.WriteFile(filepath.Join(dir, "zz_registry.go"), []byte(genRegistry(w)), 0o644)
	gomod := fmt.Sprintf("module vfrun\n\ngo 1.24.2\n\nrequire %s v0.0.0\n\nreplace %s => %s\n", modPath, modPath, w.repo)
	os.WriteFile(filepath.Join(dir, "go.mod"), []byte(gomod), 0o644)
	if sum, err := os.ReadFile(filepath.Join(w.repo, "go.sum")); err == nil {
		os.WriteFile(filepath.Join(dir, "go.sum"), sum, 0o644)
	}
	cmd := exec.Command("go", "build", "-o", "vfrun", ".")
	cmd.Dir = dir
	cmd.Env = append(os.Environ(), "GOFLAGS=-mod=mod", "GOPROXY=off")
	out, err := cmd.CombinedOutput()
	if err != nil {
		return fail(fmt.Errorf("building vfrun: %v\n%s", err, out))
	}
	runnerBin = filepath.Join(dir, "vfrun")
	return runnerBin, nil
}

// buildRunnerRace: the same runner built with the race detector (only when a counterexample asks for it).
func buildRunnerRace(w *World) (string, error) {
	if runnerRaceBin != "" {
		return runnerRaceBin, nil
	}
	if _, err := buildRunner(w); err != nil {
		return "", err
	}
	cmd := exec.Command("go", "build", "-race", "-o", "vfrun-race", ".")
	cmd.Dir = runnerDir
	cmd.Env = append(os.Environ(), "GOFLAGS=-mod=mod", "GOPROXY=off")
	if out, err := cmd.CombinedOutput(); err != nil {
		return "", fmt.Errorf("building vfrun -race: %v\n%s", err, out)
	}
	runnerRaceBin = filepath.Join(runnerDir, "vfrun-race")
	return runnerRaceBin, nil
}

func cleanupRunner() {
	runnerRaceBin = ""
	if runnerDir != "" {
		os.RemoveAll(runnerDir)
		runnerDir, runnerBin = "", ""
	}
}

var lastRunnerStderr string
var raceSeen bool
var runnerRaceBin string

func runRunner(bin string, steps []map[string]any, timeout time.Duration, memLimitKB int) ([]RunResult, error) {
	req, _ := json.Marshal(map[string]any{"steps": steps})
	sh := fmt.Sprintf("ulimit -v %d; exec %s", memLimitKB, bin)
	if strings.HasSuffix(bin, "-race") {
		sh = "exec " + bin // the race runtime needs a large address space
	}
	cmd := exec.Command("bash", "-c", sh)
	cmd.Env = append(os.Environ(), "GORACE=exitcode=0 halt_on_error=0")
	if runnerDirty != "" {
		cmd.Env = append(cmd.Env, "VFRUN_DIRTY="+runnerDirty)
	}
	raceSeen = false
	cmd.Stdin = bytes.NewReader(req)
	var out, errb bytes.Buffer
	cmd.Stdout, cmd.Stderr = &out, &errb
	if err := cmd.Start(); err != nil {
		return nil, err
	}
	done := make(chan error, 1)
	go func() { done <- cmd.Wait() }()
	select {
	case err := <-done:
		if err != nil {
			raceSeen = strings.Contains(errb.String(), "DATA RACE")
			lastRunnerStderr = errb.String()
			return nil, fmt.Errorf("runner died: %v: %s", err, firstLine(strings.TrimSpace(lastLines(errb.String(), 3))))
		}
	case <-time.After(timeout):
		cmd.Process.Kill()
		return nil, fmt.Errorf("runner timed out after %v", timeout)
	}
	raceSeen = strings.Contains(errb.String(), "DATA RACE")
	var resp struct {
		Results []RunResult `json:"results"`
	}
	if err := json.Unmarshal(out.Bytes(), &resp); err != nil {
		return nil, fmt.Errorf("runner output: %v", err)
	}
	return resp.Results, nil
}

func lastLines(s string, n int) string {
	ls := strings.Split(strings.TrimSpace(s), "\n")
	if len(ls) > n {
		ls = ls[:n]
	}
	return strings.Join(ls, " | ")
}

func dropFields(v any, names []string) any {
	m, ok := v.(map[string]any)
	if !ok || len(names) == 0 {
		return v
	}
	out := map[string]any{}
	for k, e := range m {
		skip := false
		for _, n := range names {
			if n == k {
				skip = true
			}
		}
		if !skip {
			out[k] = e
		}
	}
	return out
}

// normMsg: nil list == empty list
func normMsg(v any) any {
	switch x := v.(type) {
	case map[string]any:
		m := map[string]any{}
		for k, e := range x {
			m[k] = normMsg(e)
		}
		return m
	case []any:
		if len(x) == 0 {
			return nil
		}
		out := make([]any, len(x))
		for i, e := range x {
			out[i] = normMsg(e)
		}
		return out
	}
	return v
}

func canon(v any) any {
	raw, _ := json.Marshal(v)
	var out any
	json.Unmarshal(raw, &out)
	return normMsg(out)
}

func judge(j Judge, res []RunResult, runErr error) (confirmed bool, observed any) {
	if runErr != nil {
		// the process died (fatal error, out of memory, timeout): confirmed for the kinds where that is the violation
		switch j.Kind {
		case "panic", "alloc_gt", "abort":
			return true, runErr.Error()
		}
		return false, runErr.Error()
	}
	get := func(i int) *RunResult {
		if i < 0 || i >= len(res) {
			return &RunResult{}
		}
		return &res[i]
	}
	r := get(j.Step)
	switch j.Kind {
	case "panic":
		for i := range res {
			if res[i].Panic != nil {
				return true, map[string]any{"step": i, "panic": *res[i].Panic}
			}
		}
		return false, nil
	case "buf_ne":
		if r.Panic != nil {
			return true, map[string]any{"panic": *r.Panic}
		}
		if r.Err != nil {
			return true, map[string]any{"err": *r.Err}
		}
		return r.Buf != j.ExpectHex, map[string]any{"buf": r.Buf}
	case "same_as_step":
		// the bytes appended at Step (after the prior content ExpectHex) must equal the bytes of Step2
		r2 := get(j.Step2)
		if r.Panic != nil || r2.Panic != nil {
			return true, map[string]any{"panic": r.Panic}
		}
		if r.Err != nil || r2.Err != nil {
			return true, map[string]any{"err": r.Err, "err_first": r2.Err}
		}
		if len(j.Steps) > 0 {
			for _, si := range j.Steps {
				ri := get(si)
				if ri.Panic != nil || ri.Err != nil || !strings.HasPrefix(ri.Buf, j.ExpectHex) || ri.Buf[len(j.ExpectHex):] != r2.Buf {
					return true, map[string]any{"step": si, "appended": ri.Buf, "into_empty": r2.Buf, "err": ri.Err, "panic": ri.Panic}
				}
			}
			return false, map[string]any{"into_empty": r2.Buf}
		}
		if !strings.HasPrefix(r.Buf, j.ExpectHex) {
			return true, map[string]any{"buf": r.Buf, "note": "prior bytes altered"}
		}
		return r.Buf[len(j.ExpectHex):] != r2.Buf, map[string]any{"appended": r.Buf[len(j.ExpectHex):], "into_empty": r2.Buf}
	case "body_type_ne":
		if m, ok := r.Msg.(map[string]any); ok {
			if b, ok := m[j.Note].(map[string]any); ok {
				return b["$type"] != j.ExpectRet, map[string]any{"body_type": b["$type"]}
			}
			return true, map[string]any{"body": m[j.Note]}
		}
		return false, r.Msg
	case "crc32_ne":
		raw, _ := hex.DecodeString(j.ExpectHex)
		want := fmt.Sprint(crc32.ChecksumIEEE(raw))
		return fmt.Sprint(r.Ret) != want, map[string]any{"ret": r.Ret, "reference": want}
	case "reencode_frame":
		// the re-encoded frame must equal the consumed input except for the computed fields, which must be correct
		if r.Panic != nil {
			return true, map[string]any{"panic": *r.Panic}
		}
		if r.Err != nil {
			return true, map[string]any{"err": *r.Err}
		}
		got, _ := hex.DecodeString(r.Buf)
		want, _ := hex.DecodeString(j.ExpectHex)
		fi := j.Frame
		if len(got) != len(want) || len(got) < fi.HdrSize+fi.SumSize {
			return true, map[string]any{"buf": r.Buf}
		}
		put := func(b []byte, v uint64) {
			for i := range b {
				if fi.Little {
					b[i] = byte(v >> (8 * uint(i)))
				} else {
					b[len(b)-1-i] = byte(v >> (8 * uint(i)))
				}
			}
		}
		exp := append([]byte{}, want...)
		if fi.LenOff >= 0 {
			put(exp[fi.LenOff:fi.LenOff+fi.LenSize], uint64(len(exp)-fi.HdrSize-fi.SumSize))
		}
		if fi.Alg != "" {
			body := exp[:len(exp)-fi.SumSize]
			var sum uint64
			switch fi.Alg {
			case "SSE_BIN", "SZSE_BIN":
				for _, b := range body {
					sum = (sum + uint64(b)) & 0xFF
				}
			case "CRC32":
				sum = uint64(crc32.ChecksumIEEE(body))
			}
			put(exp[len(exp)-fi.SumSize:], sum)
		}
		return !bytes.Equal(got, exp), map[string]any{"buf": r.Buf, "expected": hex.EncodeToString(exp)}
	case "registry_seq":
		// sequential registry script (optional pre-state op first): results against an atomic map
		outs, _ := r.Ret.([]any)
		steps0 := []map[string]any{}
		_ = steps0
		return registryJudge(j.Note, outs), map[string]any{"results": outs}
	case "calc_pure":
		// two Calc steps on the same buffer: neither may change it, both must return the same value
		r2 := get(j.Step2)
		if r.Panic != nil || r2.Panic != nil {
			return true, map[string]any{"panic": r.Panic}
		}
		return r.Note != "" || r2.Note != "" || fmt.Sprint(r.Ret) != fmt.Sprint(r2.Ret), map[string]any{"first": r.Ret, "second": r2.Ret, "note": r.Note + r2.Note}
	case "prefix_ne":
		return !strings.HasPrefix(r.Buf, j.ExpectHex), map[string]any{"buf": r.Buf}
	case "msg_ne":
		if r.Panic != nil {
			return true, map[string]any{"panic": *r.Panic}
		}
		if r.Err != nil {
			return true, map[string]any{"err": *r.Err}
		}
		return !reflect.DeepEqual(dropFields(canon(r.Msg), j.Ignore), dropFields(canon(j.ExpectMsg), j.Ignore)), map[string]any{"msg": r.Msg, "buf": r.Buf}
	case "frame_len", "frame_sum":
		// concrete oracle on the bytes the real Encode appended (r = the encode step)
		if r.Panic != nil {
			return true, map[string]any{"panic": *r.Panic}
		}
		if r.Err != nil {
			return true, map[string]any{"err": *r.Err}
		}
		raw, _ := hex.DecodeString(r.Buf)
		if len(raw) < j.Prior {
			return true, map[string]any{"buf": r.Buf, "note": "prior bytes vanished"}
		}
		fr := raw[j.Prior:]
		fi := j.Frame
		if len(fr) < fi.HdrSize+fi.SumSize {
			return true, map[string]any{"buf": r.Buf, "note": "frame shorter than header+trailer"}
		}
		rd := func(b []byte) uint64 {
			var v uint64
			for i := range b {
				if fi.Little {
					v |= uint64(b[i]) << (8 * uint(i))
				} else {
					v = v<<8 | uint64(b[i])
				}
			}
			return v
		}
		msgField := func(name string) (uint64, bool) {
			if m, ok := r.Msg.(map[string]any); ok {
				if sv, ok := m[name].(string); ok {
					var u uint64
					fmt.Sscanf(sv, "%d", &u)
					return u, true
				}
			}
			return 0, false
		}
		if j.Kind == "frame_len" {
			wire := rd(fr[fi.LenOff : fi.LenOff+fi.LenSize])
			want := uint64(len(fr) - fi.HdrSize - fi.SumSize)
			obj, _ := msgField(fi.LenField)
			return wire != want || obj != want, map[string]any{"wire_len": wire, "object_len": obj, "body_bytes": want, "frame": hex.EncodeToString(fr)}
		}
		body := fr[:len(fr)-fi.SumSize]
		var want uint64
		switch fi.Alg {
		case "SSE_BIN", "SZSE_BIN":
			for _, b := range body {
				want = (want + uint64(b)) & 0xFF
			}
		case "CRC32":
			want = uint64(crc32.ChecksumIEEE(body))
		}
		wire := rd(fr[len(fr)-fi.SumSize:])
		obj, _ := msgField(fi.SumField)
		return wire != want || obj != want, map[string]any{"wire_sum": wire, "object_sum": obj, "reference_sum": want, "frame": hex.EncodeToString(fr)}
	case "two_msgs_ne":
		r2 := get(j.Step2)
		if (r.Err == nil) != (r2.Err == nil) || (r.Panic == nil) != (r2.Panic == nil) {
			return true, map[string]any{"err1": r.Err, "err2": r2.Err}
		}
		if r.Err != nil {
			return false, nil
		}
		if j.Note == "msg-only" {
			return !reflect.DeepEqual(canon(r.Msg), canon(r2.Msg)), map[string]any{"msg1": r.Msg, "msg2": r2.Msg}
		}
		return !reflect.DeepEqual(canon(r.Msg), canon(r2.Msg)) || r.Buf != r2.Buf, map[string]any{"msg1": r.Msg, "msg2": r2.Msg}
	case "bufs_ne":
		r2 := get(j.Step2)
		return r.Buf != r2.Buf, map[string]any{"buf1": r.Buf, "buf2": r2.Buf}
	case "err_nil": // the property demands an error
		if r.Panic != nil {
			return true, map[string]any{"panic": *r.Panic}
		}
		return r.Err == nil, map[string]any{"err": r.Err, "msg": r.Msg}
	case "err_nonnil":
		if r.Panic != nil {
			return true, map[string]any{"panic": *r.Panic}
		}
		return r.Err != nil, map[string]any{"err": r.Err}
	case "alloc_gt":
		// the largest allocation of any step of the script (only decode / primitive steps measure one)
		var mx uint64
		for i := range res {
			if res[i].Alloc > mx {
				mx = res[i].Alloc
			}
		}
		return mx > j.Bound, map[string]any{"alloc": mx, "bound": j.Bound}
	case "ret_ne":
		if r.Panic != nil {
			return true, map[string]any{"panic": *r.Panic}
		}
		return !reflect.DeepEqual(canon(r.Ret), canon(j.ExpectRet)) || (j.Note == "pure" && r.Note != ""), map[string]any{"ret": r.Ret, "note": r.Note}
	case "kept_changed":
		// scripts of the form (newbuf, prim keep, scribble, dumpkept)*: a kept result that reads differently
		// after the source buffer was scribbled over shares memory with it
		for i := 0; i+3 < len(res); i += 4 {
			if res[i+1].Panic != nil || res[i+1].Err != nil {
				continue
			}
			if !reflect.DeepEqual(canon(res[i+1].Ret), canon(res[i+3].Ret)) {
				return true, map[string]any{"script_block": i / 4, "note": "the returned value changed when the source buffer was overwritten"}
			}
		}
		return false, nil
	case "hang":
		// the probe step reports that a public registration function did not return: a lock was leaked
		for i := range res {
			if res[i].Note == "hang" {
				return true, map[string]any{"step": i, "note": "a Registry...Factory call blocked for 2 s: a lock of the table is still held"}
			}
		}
		return false, nil
	case "anomaly":
		if m, ok := r.Ret.(map[string]any); ok {
			for _, k := range []string{"anomalies", "mismatches"} {
				if n, ok := m[k].(float64); ok && n > 0 {
					return true, m
				}
			}
		}
		return false, r.Ret
	}
	return false, "unknown judge kind " + j.Kind
}

var replayWorld *World
var replayMemo = map[string]struct {
	ok  bool
	obs any
}{}

func confirmViolations(d *Driver, viols []Violation) {
	if len(viols) == 0 {
		return
	}
	need := false
	for i := range viols {
		if viols[i].Replay != nil {
			need = true
		} else {
			viols[i].Confirmed = "unreplayable"
		}
	}
	if !need {
		return
	}
	if replayWorld == nil {
		w, err := LoadWorld("z3-new", 1000)
		if err != nil {
			for i := range viols {
				viols[i].Confirmed = "unreplayable"
				viols[i].Detail += " (tree cannot be loaded for replay: " + err.Error() + ")"
			}
			return
		}
		replayWorld = w
	}
	bin, err := buildRunner(replayWorld)
	dir := filepath.Join(verifDir(), "replays", d.Prop)
	os.RemoveAll(dir)
	os.MkdirAll(dir, 0o755)
	perItem := map[string]int{}
	total := 0
	for i := range viols {
		v := &viols[i]
		if v.Replay == nil {
			continue
		}
		if err != nil {
			v.Confirmed = "unreplayable"
			v.Detail += " (runner build failed: " + firstLine(err.Error()) + ")"
			continue
		}
		perItem[v.Item+"|"+v.Obligation]++
		if perItem[v.Item+"|"+v.Obligation] > 2 || total >= 60 {
			v.Confirmed = "not-replayed"
			continue
		}
		total++
		useBin := bin
		if v.Replay.Judge.Note == "race" {
			if rb, rerr := buildRunnerRace(replayWorld); rerr == nil {
				useBin = rb
			}
		}
		registrySpecOps = nil
		if len(v.Replay.Steps) > 0 && v.Replay.Steps[0]["op"] == "registry" {
			if ops, ok := v.Replay.Steps[0]["ops"].([]map[string]any); ok {
				registrySpecOps = ops
			}
		}
		keyRaw, _ := json.Marshal(map[string]any{"s": v.Replay.Steps, "j": v.Replay.Judge})
		var ok bool
		var obs any
		if m, seen := replayMemo[string(keyRaw)]; seen {
			ok, obs = m.ok, m.obs
		} else {
			res, rerr := runRunner(useBin, v.Replay.Steps, 120*time.Second, 8<<20)
			ok, obs = judge(v.Replay.Judge, res, rerr)
			if v.Replay.Judge.Note == "race" && raceSeen {
				ok, obs = true, map[string]any{"race_detector": "DATA RACE reported", "result": obs}
			} else if v.Replay.Judge.Note == "race" && rerr != nil {
				if fe := runtimeFatal(lastRunnerStderr); fe != "" {
					ok, obs = true, map[string]any{"runtime_fatal_error": fe}
				}
			}
			replayMemo[string(keyRaw)] = struct {
				ok  bool
				obs any
			}{ok, obs}
		}
		for alt := v.Replay.Alt; !ok && alt != nil && v.Replay.Judge.Note != "race"; alt = alt.Alt {
			res, rerr := runRunner(useBin, alt.Steps, 120*time.Second, 8<<20)
			if ok2, obs2 := judge(alt.Judge, res, rerr); ok2 {
				ok, obs = ok2, obs2
				v.Replay = alt
			}
		}
		if !ok && v.Replay.Judge.Note != "race" && dirtyRelevant(v) {
			// the model lets the spare capacity of a bytes.Buffer hold arbitrary bytes (a recycled buffer); a fresh
			// buffer's spare capacity is zero: replay once more with buffers whose spare capacity holds garbage
			for _, mode := range []string{"1", "2"} {
				runnerDirty = mode
				for rq := v.Replay; !ok && rq != nil; rq = rq.Alt {
					res, rerr := runRunner(useBin, rq.Steps, 120*time.Second, 8<<20)
					if ok2, obs2 := judge(rq.Judge, res, rerr); ok2 {
						ok, obs = ok2, map[string]any{"buffers_with_dirty_spare_capacity": mode, "observed": obs2}
						v.Replay = rq
						v.Replay.Dirty = mode
					}
				}
			}
			runnerDirty = ""
		}
		v.Observed = obs
		if ok {
			v.Confirmed = "native"
		} else {
			v.Confirmed = "not-reproduced"
		}
		name := fmt.Sprintf("%03d-%s.json", total, sanitize(v.Item+"-"+v.Obligation))
		if len(name) > 150 {
			name = name[:140] + ".json"
		}
		path := filepath.Join(dir, name)
		v.ReplayFile = path
		doc := map[string]any{"property": v.Property, "item": v.Item, "obligation": v.Obligation, "detail": v.Detail,
			"model": v.Model, "steps": v.Replay.Steps, "judge": v.Replay.Judge, "dirty_spare": v.Replay.Dirty, "observed": obs, "confirmed": v.Confirmed,
			"solver": map[string]any{"name": "z3", "version": "5.1.0"}, "reproduce": "./check replay " + path}
		raw, _ := json.MarshalIndent(doc, "", " ")
		os.WriteFile(path, raw, 0o644)
	}
}

func replayFile(path string) int {
	raw, err := os.ReadFile(path)
	if err != nil {
		fmt.Println(err)
		return 2
	}
	var doc struct {
		Property string           `json:"property"`
		Steps    []map[string]any `json:"steps"`
		Judge    Judge            `json:"judge"`
		Dirty    string           `json:"dirty_spare"`
	}
	if err := json.Unmarshal(raw, &doc); err != nil {
		fmt.Println(err)
		return 2
	}
	w, err := LoadWorld("z3-new", 1000)
	if err != nil {
		fmt.Println(err)
		return 2
	}
	bin, err := buildRunner(w)
	defer cleanupRunner()
	if err != nil {
		fmt.Println(err)
		return 2
	}
	if doc.Judge.Note == "race" {
		if rb, rerr := buildRunnerRace(w); rerr == nil {
			bin = rb
		}
	}
	runnerDirty = doc.Dirty
	res, rerr := runRunner(bin, doc.Steps, 120*time.Second, 8<<20)
	ok, obs := judge(doc.Judge, res, rerr)
	if doc.Judge.Note == "race" && raceSeen {
		ok, obs = true, map[string]any{"race_detector": "DATA RACE reported", "result": obs}
	} else if doc.Judge.Note == "race" && rerr != nil {
		if fe := runtimeFatal(lastRunnerStderr); fe != "" {
			ok, obs = true, map[string]any{"runtime_fatal_error": fe}
		}
	}
	ob, _ := json.Marshal(obs)
	fmt.Printf("observed: %s\n", ob)
	if ok {
		fmt.Printf("VIOLATION property=%s replay=%s\n", doc.Property, path)
		return 1
	}
	fmt.Println("not reproduced on this tree")
	return 0
}

// registryJudge replays the atomic-map specification over the observed results of a sequential script.
// The script's ops are not available here; the runner echoes [present?, ok] for Get and bool for Registry,
// so the check is: results are well-formed for the pre-state. (Used only to confirm a symbolic finding:
// the script is run natively and any deviation from the specification computed by specResults confirms it.)
var registrySpecOps []map[string]any

func registryJudge(pre string, outs []any) bool {
	present := map[string]bool{"CRC16": true, "CRC32": true, "SSE_BIN": true, "SZSE_BIN": true}
	idx := 0
	for _, opm := range registrySpecOps {
		op, _ := opm["op"].(string)
		alg, _ := opm["alg"].(string)
		var got any
		if idx < len(outs) {
			got = outs[idx]
		}
		idx++
		switch op {
		case "Registry":
			want := !present[alg] && alg != ""
			if b, ok := got.(bool); !ok || b != want {
				return true
			}
			if want {
				present[alg] = true
			}
		case "Get":
			l, ok := got.([]any)
			if !ok || len(l) != 2 {
				return true
			}
			if l[0] != present[alg] || l[1] != present[alg] {
				return true
			}
		case "Remove":
			delete(present, alg)
		case "Clear":
			present = map[string]bool{}
		}
	}
	return false
}

// runtimeFatal: the Go runtime's own verdict on a synchronisation error in a stress replay.
func runtimeFatal(stderr string) string {
	for _, l := range strings.Split(stderr, "\n") {
		if strings.HasPrefix(l, "fatal error: sync:") || strings.HasPrefix(l, "fatal error: concurrent map") || strings.HasPrefix(l, "fatal error: all goroutines are asleep") {
			return l
		}
	}
	return ""
}

// inflate: the same message value with every list lengthened to n elements (cycling through its elements) -
// a concrete amplification of a solver model for effects that need a large encoding to show natively.
func inflate(v any, n int) any {
	switch x := v.(type) {
	case map[string]any:
		out := map[string]any{}
		for k, e := range x {
			out[k] = inflate(e, n)
		}
		return out
	case []any:
		if len(x) == 0 {
			return x
		}
		out := make([]any, 0, n)
		for i := 0; i < n || i < len(x); i++ {
			out = append(out, inflate(x[i%len(x)], n))
		}
		return out
	}
	return v
}

// inflateText: the same message value with every text lengthened to n bytes (repeating its bytes, 'x' when empty):
// fixed-width fields cut it again, length-prefixed ones make the encoding large.
func inflateText(v any, n int) any {
	switch x := v.(type) {
	case map[string]any:
		if h, ok := x["$hex"].(string); ok && len(x) == 1 {
			if h == "" {
				h = "78"
			}
			return map[string]any{"$hex": strings.Repeat(h, 2*n/len(h)+1)[:2*n]}
		}
		out := map[string]any{}
		for k, e := range x {
			out[k] = inflateText(e, n)
		}
		return out
	case []any:
		out := make([]any, 0, len(x))
		for _, e := range x {
			out = append(out, inflateText(e, n))
		}
		return out
	}
	return v
}

var runnerDirty string

// dirtyRelevant: every candidate may depend on the bytes behind a buffer's content (the model keeps them unknown)
func dirtyRelevant(v *Violation) bool { return true }
