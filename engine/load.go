package main

// Loading /repo's current working tree, building SSA (with an overlay that only forces generic
// instantiations), and concretely executing the packages' init functions.

import (
	"fmt"
	"go/ast"
	"go/parser"
	"go/token"
	"go/types"
	"os"
	"path/filepath"
	"sort"
	"strings"
	"time"

	"golang.org/x/tools/go/packages"
	"golang.org/x/tools/go/ssa"
	"golang.org/x/tools/go/ssa/ssautil"
)

const modPath = "github.com/xinchentechnote/fin-proto-go"

var modules = []string{"sse-bin", "szse-bin", "bjse-trade-bin", "risk-bin", "sample-bin"}

type World struct {
	e       *Engine
	prog    *ssa.Program
	pkgs    map[string]*ssa.Package // "codec", "sse-bin", ...
	base    *State
	sharedW map[int]string // C19: package-level objects written by registry operations (memo)
	fns     map[string]*ssa.Function
	repo    string
	loadS   float64
	nInit   int
}

func repoDir() string {
	if d := os.Getenv("VERIF_REPO"); d != "" {
		return d
	}
	return "/repo"
}

var basicElems = []string{"int8", "int16", "int32", "int64", "uint8", "uint16", "uint32", "uint64", "float32", "float64"}
var prefixTypes = []string{"uint8", "uint16", "uint32"}

// overlaySource builds codec/zz_verif_inst.go from the generic functions that exist in the tree.
func overlaySource(repo string) (string, error) {
	fset := token.NewFileSet()
	pk, err := parser.ParseDir(fset, filepath.Join(repo, "codec"), func(fi os.FileInfo) bool {
		return !strings.HasSuffix(fi.Name(), "_test.go") && !strings.HasPrefix(fi.Name(), "zz_verif")
	}, 0)
	if err != nil {
		return "", err
	}
	type gf struct {
		name  string
		doms  [][]string
		valid bool
	}
	domOf := func(x ast.Expr) []string {
		switch t := x.(type) {
		case *ast.SelectorExpr:
			if t.Sel.Name == "Unsigned" {
				return prefixTypes
			}
		case *ast.Ident:
			switch t.Name {
			case "BasicType":
				return basicElems
			case "BinaryCodec":
				return []string{"*ZzObj"}
			}
		}
		return nil
	}
	var gfs []gf
	for _, p := range pk {
		for _, f := range p.Files {
			for _, d := range f.Decls {
				fd, ok := d.(*ast.FuncDecl)
				if !ok || fd.Recv != nil || fd.Type.TypeParams == nil {
					continue
				}
				g := gf{name: fd.Name.Name, valid: true}
				for _, fl := range fd.Type.TypeParams.List {
					dom := domOf(fl.Type)
					if dom == nil {
						g.valid = false
					}
					for range fl.Names {
						g.doms = append(g.doms, dom)
					}
				}
				if g.valid {
					gfs = append(gfs, g)
				}
			}
		}
	}
	sort.Slice(gfs, func(i, j int) bool { return gfs[i].name < gfs[j].name })
	var sb strings.Builder
	sb.WriteString("package codec\n\nimport (\n\t\"bytes\"\n\t\"errors\"\n)\n\n")
	sb.WriteString("type ZzObj struct{ V uint16 }\n")
	// (an element whose own Encode refuses: V == 0xFFFF; the drivers exclude that value except where the refusal is the subject)
	sb.WriteString("func (o *ZzObj) Encode(buf *bytes.Buffer) error {\n\tif o.V == 0xFFFF {\n\t\treturn errors.New(\"zz: element refuses to encode\")\n\t}\n\treturn WriteBasicType(buf, o.V)\n}\n")
	sb.WriteString("func (o *ZzObj) Decode(buf *bytes.Buffer) error { v, err := ReadBasicType[uint16](buf); o.V = v; return err }\n")
	sb.WriteString("func NewZzObj() *ZzObj { return &ZzObj{} }\n\n")
	// a named (defined) prefix type: guards written as a type switch or a table over the predeclared types miss it
	sb.WriteString("type ZzU8 uint8\n\n")
	sb.WriteString("var zzVerifSink []any\n\nfunc zzVerifInst() {\n")
	for _, g := range gfs {
		switch {
		case (g.name == "WriteString" || g.name == "WriteStringLE") && len(g.doms) == 1:
			fmt.Fprintf(&sb, "\tzzVerifSink = append(zzVerifSink, %s[ZzU8])\n", g.name)
		case (g.name == "WriteBasicTypeList" || g.name == "WriteBasicTypeListLE") && len(g.doms) == 2:
			fmt.Fprintf(&sb, "\tzzVerifSink = append(zzVerifSink, %s[ZzU8, uint16])\n", g.name)
		case (g.name == "WriteObjectList" || g.name == "WriteObjectListLE") && len(g.doms) == 2:
			fmt.Fprintf(&sb, "\tzzVerifSink = append(zzVerifSink, %s[ZzU8, *ZzObj])\n", g.name)
		}
	}
	for _, g := range gfs {
		combos := [][]string{{}}
		for _, dom := range g.doms {
			var next [][]string
			for _, c := range combos {
				for _, d := range dom {
					next = append(next, append(append([]string{}, c...), d))
				}
			}
			combos = next
		}
		for _, c := range combos {
			fmt.Fprintf(&sb, "\tzzVerifSink = append(zzVerifSink, %s[%s])\n", g.name, strings.Join(c, ", "))
		}
	}
	sb.WriteString("}\n")
	return sb.String(), nil
}

func LoadWorld(solverBin string, timeoutMs int) (*World, error) {
	t0 := time.Now()
	repo := repoDir()
	ov, err := overlaySource(repo)
	if err != nil {
		return nil, err
	}
	cfg := &packages.Config{Mode: packages.LoadAllSyntax, Dir: repo,
		Overlay: map[string][]byte{filepath.Join(repo, "codec", "zz_verif_inst.go"): []byte(ov)},
		Env:     append(os.Environ(), "GOFLAGS=-mod=mod", "GOPROXY=off")}
	pats := []string{"./codec"}
	for _, m := range modules {
		pats = append(pats, "./"+m+"/messages")
	}
	pkgs, err := packages.Load(cfg, pats...)
	if err != nil {
		return nil, err
	}
	nerr := 0
	packages.Visit(pkgs, nil, func(p *packages.Package) {
		for _, e := range p.Errors {
			fmt.Fprintln(os.Stderr, "LOAD ERROR:", e)
			nerr++
		}
	})
	if nerr > 0 {
		return nil, fmt.Errorf("%d package errors loading %s", nerr, repo)
	}
	prog, _ := ssautil.AllPackages(pkgs, ssa.InstantiateGenerics|ssa.BareInits)
	prog.Build()
	w := &World{prog: prog, pkgs: map[string]*ssa.Package{}, fns: map[string]*ssa.Function{}, repo: repo}
	for _, p := range prog.AllPackages() {
		if strings.HasPrefix(p.Pkg.Path(), modPath+"/") {
			w.pkgs[strings.Split(strings.TrimPrefix(p.Pkg.Path(), modPath+"/"), "/")[0]] = p
		}
	}
	for fn := range ssautil.AllFunctions(prog) {
		if fn.Pkg != nil && strings.HasPrefix(fn.Pkg.Pkg.Path(), modPath) || fn.Origin() != nil && fn.Origin().Pkg != nil && strings.HasPrefix(fn.Origin().Pkg.Pkg.Path(), modPath) {
			w.fns[fn.String()] = fn
		}
	}
	e := &Engine{prog: prog, solver: NewSolver(solverBin, timeoutMs), globals: map[*ssa.Global]int{}, merge: true,
		mergePkg: map[string]bool{modPath + "/codec": true}, funcs: map[string]int{}, crcExact: 0,
		trace: os.Getenv("VF_TRACE") != ""}
	w.e = e
	base := &State{heap: map[int]*Obj{}}
	order := append([]string{"codec"}, modules...)
	for _, name := range order {
		p := w.pkgs[name]
		if p == nil {
			return nil, fmt.Errorf("package %s not loaded", name)
		}
		var names []string
		for n := range p.Members {
			names = append(names, n)
		}
		sort.Strings(names)
		for _, n := range names {
			if g, ok := p.Members[n].(*ssa.Global); ok {
				e.globals[g] = base.newObj(&Obj{Kind: kCell, Val: e.zero(g.Type().(*types.Pointer).Elem())})
			}
		}
	}
	e.merge = false
	for _, name := range order {
		p := w.pkgs[name]
		e.pushCall(base, p.Func("init"), nil, nil)
		fin := e.Run(base)
		if len(fin) != 1 || fin[0].panicd != "" || fin[0].cut != "" {
			msg := "no final state"
			if len(fin) > 0 {
				msg = fin[0].panicd + fin[0].cut
			}
			return nil, fmt.Errorf("init of %s: %d final states: %s", name, len(fin), msg)
		}
		base = fin[0]
		base.frames = nil
	}
	e.merge = true
	w.nInit = base.steps
	base.steps = 0
	base.allocs, base.acc, base.lockEvs, base.notes = nil, nil, nil, nil
	e.baseMax = objCounter
	e.Paths, e.Steps, e.Forks = 0, 0, 0
	e.funcs = map[string]int{}
	w.base = base
	w.loadS = time.Since(t0).Seconds()
	return w, nil
}

func (w *World) fn(name string) *ssa.Function {
	if f, ok := w.fns[modPath+"/"+name]; ok {
		return f
	}
	return nil
}

// method of *T in module mod
func (w *World) method(mod, typ, name string) *ssa.Function {
	p := w.pkgs[mod]
	if p == nil {
		return nil
	}
	t := p.Type(typ)
	if t == nil {
		return nil
	}
	return w.prog.LookupMethod(types.NewPointer(t.Type()), p.Pkg, name)
}

func (w *World) typeOf(mod, typ string) types.Type {
	p := w.pkgs[mod]
	if p == nil || p.Type(typ) == nil {
		return nil
	}
	return p.Type(typ).Type()
}

func (w *World) newState() *State {
	return w.base.clone()
}
