package main

// Primitive-level drivers over codec's generic writers/readers: C03(a) byte-order pairs.

import (
	"fmt"
	"go/types"
	"sort"
	"strings"

	"golang.org/x/tools/go/ssa"
)

type primInst struct {
	Name   string // e.g. WriteString[uint16]
	Base   string // WriteStringLE
	Family string // WriteString
	LE     bool
	TArgs  []string
	Fn     *ssa.Function
}

func (c *Ctx) primInstances() []primInst { return c.primInstancesOpt(false) }

// primInstancesOpt: named=true also returns the instantiations with the named prefix type ZzU8 (C18 only).
func (c *Ctx) primInstancesOpt(named bool) []primInst {
	var out []primInst
	pfx := modPath + "/codec."
	for full, fn := range c.w.fns {
		if !strings.HasPrefix(full, pfx) {
			continue
		}
		n := full[len(pfx):]
		if strings.Contains(n, "$") || strings.HasPrefix(n, "zz") || strings.HasPrefix(n, "NewZz") || strings.HasPrefix(n, "init") {
			continue
		}
		p := primInst{Fn: fn}
		if i := strings.Index(n, "["); i >= 0 {
			p.Base = n[:i]
			for _, a := range strings.FieldsFunc(n[i+1:len(n)-1], func(r rune) bool { return r == ',' || r == ' ' }) {
				a = strings.TrimSpace(a)
				a = strings.ReplaceAll(a, modPath+"/codec.", "")
				if a == "byte" {
					a = "uint8" // (go/ssa names the instance after whichever spelling it met first)
				}
				p.TArgs = append(p.TArgs, a)
			}
			if fn.Origin() == nil {
				continue
			}
		} else {
			p.Base = n
			if fn.TypeParams().Len() > 0 {
				continue // the uninstantiated generic body
			}
		}
		okArgs := true
		for _, a := range p.TArgs {
			if !isBasicName(a) && a != "*ZzObj" && !(named && a == "ZzU8") {
				okArgs = false
			}
		}
		if !okArgs {
			continue
		}
		p.Name = p.Base
		if len(p.TArgs) > 0 {
			p.Name += "[" + strings.Join(p.TArgs, ",") + "]"
		}
		p.Family = p.Base
		if strings.HasSuffix(p.Base, "LE") {
			p.LE = true
			p.Family = strings.TrimSuffix(p.Base, "LE")
		}
		out = append(out, p)
	}
	sort.Slice(out, func(i, j int) bool { return out[i].Name < out[j].Name })
	return out
}

func isBasicName(s string) bool {
	for _, b := range basicElems {
		if b == s {
			return true
		}
	}
	return false
}

// primHarness: symbolic arguments for a primitive and the reference rendering.
type primHarness struct {
	c     *Ctx
	p     primInst
	s     *State
	bufID int
	args  []Value
	// description of the value for reference + replay
	vals  []*SVal // scalar / text / list elements
	kind  string
	ref   *Bytes
	nums  []Region
	jargs func(val func(*Term) uint64) []any
}

func (c *Ctx) textArg(s *State, name string, maxLen int) *SVal {
	g := &Gen{w: c.w, sc: c.sc}
	return g.symText(s, name, maxLen)
}

func concText(v *SVal, val func(*Term) uint64) any {
	return map[string]any{"$hex": hexOf(evalBytes(v.S, val))}
}

// buildWriter prepares the call of writer p with a list of n elements (or one scalar/text).
// Returns false when the family is not a writer this driver knows.
func (c *Ctx) buildWriter(p primInst, n, P int, fixedLen int, pad *Term, left *Term) *primHarness {
	e := c.e()
	s := c.w.newState()
	h := &primHarness{c: c, p: p, s: s}
	h.bufID = s.newObj(&Obj{Kind: kBuffer, B: EmptyBytes(), R: CI(0)})
	bufp := &Ptr{Obj: h.bufID}
	little := p.LE
	out := EmptyBytes()
	num := func(name string, k int) {
		if k >= 2 {
			h.nums = append(h.nums, Region{Name: name, Start: out.Len, End: Add(out.Len, CI(int64(k)))})
		}
	}
	sig := p.Fn.Signature
	switch p.Family {
	case "WriteBasicType":
		w := typeWidth(p.TArgs[0])
		v := e.freshVar("v", w)
		h.vals = []*SVal{{K: 'i', T: v}}
		h.args = []Value{bufp, v}
		num("value", w/8)
		out = Concat2(out, VecBytes(intBytes(v, little)))
		h.jargs = func(val func(*Term) uint64) []any { return []any{map[string]any{"buf": "b"}, fmt.Sprint(val(v))} }
	case "WriteBasicTypeList":
		w := typeWidth(p.TArgs[1])
		num("count", typeWidth(p.TArgs[0])/8)
		out = Concat2(out, VecBytes(prefixBytes(p.TArgs[0], CI(int64(n)), little)))
		var elems []*Term
		for i := 0; i < n; i++ {
			v := e.freshVar("el", w)
			elems = append(elems, v)
			num(fmt.Sprintf("elem[%d]", i), w/8)
			out = Concat2(out, VecBytes(intBytes(v, little)))
		}
		var sl *SliceV
		if w == 8 {
			id := s.newObj(&Obj{Kind: kBytes, B: VecBytes(elems)})
			sl = &SliceV{Obj: id, Off: CI(0), Len: CI(int64(n)), Cap: CI(int64(n))}
		} else {
			o := &Obj{Kind: kElems}
			for _, x := range elems {
				o.E = append(o.E, x)
			}
			sl = &SliceV{Obj: s.newObj(o), Off: CI(0), Len: CI(int64(n)), Cap: CI(int64(n))}
		}
		h.args = []Value{bufp, sl}
		h.jargs = func(val func(*Term) uint64) []any {
			l := []any{}
			for _, x := range elems {
				l = append(l, fmt.Sprint(val(x)))
			}
			return []any{map[string]any{"buf": "b"}, l}
		}
	case "WriteString":
		t := c.textArg(s, "s", P)
		num("len", typeWidth(p.TArgs[0])/8)
		out = Concat2(out, VecBytes(prefixBytes(p.TArgs[0], t.S.Len, little)))
		out = Concat2(out, t.S)
		h.args = []Value{bufp, &StringV{B: t.S}}
		h.vals = []*SVal{t}
		h.jargs = func(val func(*Term) uint64) []any { return []any{map[string]any{"buf": "b"}, concText(t, val)} }
	case "WriteStringList":
		num("count", typeWidth(p.TArgs[0])/8)
		out = Concat2(out, VecBytes(prefixBytes(p.TArgs[0], CI(int64(n)), little)))
		o := &Obj{Kind: kElems}
		var ts []*SVal
		for i := 0; i < n; i++ {
			t := c.textArg(s, "s", P)
			ts = append(ts, t)
			o.E = append(o.E, &StringV{B: t.S})
			num(fmt.Sprintf("len[%d]", i), typeWidth(p.TArgs[1])/8)
			out = Concat2(out, VecBytes(prefixBytes(p.TArgs[1], t.S.Len, little)))
			out = Concat2(out, t.S)
		}
		h.vals = ts
		h.args = []Value{bufp, &SliceV{Obj: s.newObj(o), Off: CI(0), Len: CI(int64(n)), Cap: CI(int64(n))}}
		h.jargs = func(val func(*Term) uint64) []any {
			l := []any{}
			for _, t := range ts {
				l = append(l, concText(t, val))
			}
			return []any{map[string]any{"buf": "b"}, l}
		}
	case "WriteFixedStringList", "WriteFixedStringListWithPadding":
		fs := &FieldSpec{Width: fixedLen, Pad: 32}
		padT := C(32, 32)
		var leftT *Term = False
		if p.Family == "WriteFixedStringListWithPadding" {
			padT, leftT = pad, left
		}
		num("count", typeWidth(p.TArgs[0])/8)
		out = Concat2(out, VecBytes(prefixBytes(p.TArgs[0], CI(int64(n)), little)))
		o := &Obj{Kind: kElems}
		var ts []*SVal
		for i := 0; i < n; i++ {
			t := c.textArg(s, "s", fixedLen+2)
			ts = append(ts, t)
			o.E = append(o.E, &StringV{B: t.S})
			out = Concat2(out, refFixSym(t, fs.Width, Extract(7, 0, padT), leftT))
		}
		h.vals = ts
		sl := &SliceV{Obj: s.newObj(o), Off: CI(0), Len: CI(int64(n)), Cap: CI(int64(n))}
		h.args = []Value{bufp, sl, CI(int64(fixedLen))}
		if sig.Params().Len() == 5 {
			h.args = append(h.args, padT, leftT)
		}
		h.jargs = func(val func(*Term) uint64) []any {
			l := []any{}
			for _, t := range ts {
				l = append(l, concText(t, val))
			}
			a := []any{map[string]any{"buf": "b"}, l, fmt.Sprint(fixedLen)}
			if sig.Params().Len() == 5 {
				a = append(a, fmt.Sprint(val(padT)), val(leftT) == 1)
			}
			return a
		}
	case "WriteObjectList":
		num("count", typeWidth(p.TArgs[0])/8)
		out = Concat2(out, VecBytes(prefixBytes(p.TArgs[0], CI(int64(n)), little)))
		o := &Obj{Kind: kElems}
		var vs []*Term
		for i := 0; i < n; i++ {
			v := e.freshVar("obj", 16)
			s.pc = append(s.pc, Not(Eq(v, C(16, 0xFFFF)))) // (the value at which the test element refuses to encode)
			vs = append(vs, v)
			id := s.newObj(&Obj{Kind: kCell, Val: &StructV{F: []Value{v}}})
			o.E = append(o.E, &Ptr{Obj: id})
			out = Concat2(out, VecBytes(intBytes(v, false))) // the element's own Encode (big-endian ZzObj)
		}
		h.args = []Value{bufp, &SliceV{Obj: s.newObj(o), Off: CI(0), Len: CI(int64(n)), Cap: CI(int64(n))}}
		h.jargs = func(val func(*Term) uint64) []any {
			l := []any{}
			for _, v := range vs {
				l = append(l, map[string]any{"V": fmt.Sprint(val(v))})
			}
			return []any{map[string]any{"buf": "b"}, l}
		}
	default:
		return nil
	}
	if sig.Params().Len() != len(h.args) {
		panic(bindErr(fmt.Sprintf("%s: signature has %d parameters, driver built %d", p.Name, sig.Params().Len(), len(h.args))))
	}
	h.ref = out
	return h
}

// refFixSym: fixed-text reference with symbolic pad byte and side.
func refFixSym(v *SVal, N int, pad *Term, left *Term) *Bytes {
	out := make([]*Term, N)
	L := v.S.Len
	for j := 0; j < N; j++ {
		k := Sub(CI(int64(j)), Sub(CI(int64(N)), L))
		long := Le(CI(int64(N)), L, true)
		lv := Ite(long, v.S.At(CI(int64(j))), Ite(Lt(k, CI(0), true), pad, v.S.At(k)))
		rv := Ite(Lt(CI(int64(j)), L, true), v.S.At(CI(int64(j))), pad)
		out[j] = Ite(left, lv, rv)
	}
	return VecBytes(out)
}

func (h *primHarness) steps(val func(*Term) uint64) []map[string]any {
	return []map[string]any{
		step("op", "newbuf", "buf", "b", "hex", ""),
		step("op", "prim", "fn", h.p.Name, "args", h.jargs(val)),
	}
}

func primPairItems(c *Ctx) []Item {
	var items []Item
	ns := []int{0, 1, 2}
	if c.thorough() {
		ns = []int{0, 1, 2, 3}
	}
	for _, p := range c.primInstances() {
		p := p
		switch p.Family {
		case "WriteBasicType", "WriteString":
			items = append(items, Item{ID: "prim:" + p.Name, Run: func(c *Ctx) { c03Writer(c, p, 0) }})
		case "WriteBasicTypeList", "WriteStringList", "WriteFixedStringList", "WriteFixedStringListWithPadding", "WriteObjectList":
			for _, n := range ns {
				n := n
				items = append(items, Item{ID: fmt.Sprintf("prim:%s/n=%d", p.Name, n), Run: func(c *Ctx) { c03Writer(c, p, n) }})
			}
		}
		if p.Family == "WriteBasicTypeList" && typeWidth(p.TArgs[1]) > 8 {
			// long lists (size thresholds of bulk / block-wise paths); prefix types that can count that far
			lens := []int{64, 300}
			if c.thorough() {
				lens = []int{64, 65, 255, 256, 1025, 4097}
			}
			for _, n := range lens {
				n := n
				if typeWidth(p.TArgs[0]) == 8 && n > 255 {
					continue
				}
				items = append(items, Item{ID: fmt.Sprintf("primlong:%s/n=%d", p.Name, n), Run: func(c *Ctx) { c03LongList(c, p, n) }})
			}
		}
		switch p.Family {
		case "ReadBasicType", "ReadString":
			items = append(items, Item{ID: "prim:" + p.Name, Run: func(c *Ctx) { c03Reader(c, p, 0) }})
		case "ReadBasicTypeList", "ReadStringList", "ReadFixedStringList", "ReadFixedStringListTrimPadding", "ReadObjectList":
			for _, n := range ns {
				n := n
				items = append(items, Item{ID: fmt.Sprintf("prim:%s/n=%d", p.Name, n), Run: func(c *Ctx) { c03Reader(c, p, n) }})
			}
		}
	}
	return items
}

func c03Writer(c *Ctx, p primInst, n int) {
	e := c.e()
	pad := C(32, '0')
	h := c.buildWriter(p, n, 3, 4, pad, e.freshVar("left", 0))
	if h == nil {
		return
	}
	e.pushCall(h.s, p.Fn, h.args, nil)
	for _, fs := range e.Run(h.s) {
		if c.PathProblem(fs, p.Name, func(val func(*Term) uint64, msg string) *Violation {
			return &Violation{Obligation: "no-panic", Detail: p.Name + " panics: " + msg, Replay: &ReplayReq{Steps: h.steps(val), Judge: Judge{Kind: "panic"}}}
		}) {
			continue
		}
		if !isNilErr(fs.ret) {
			c.Prove(fs, "succeeds", False, func(val func(*Term) uint64) *Violation {
				return &Violation{Detail: p.Name + " returns an error on a small value", Replay: &ReplayReq{Steps: h.steps(val), Judge: Judge{Kind: "err_nonnil", Step: 1}}}
			})
			continue
		}
		out := fs.heap[h.bufID].B
		mk := func(what string) func(val func(*Term) uint64) *Violation {
			return func(val func(*Term) uint64) *Violation {
				want := hexOf(evalBytes(h.ref, val))
				return &Violation{Detail: what, Model: map[string]any{"args": h.jargs(val), "reference_hex": want, "engine_wire_hex": hexOf(evalBytes(out, val))},
					Replay: &ReplayReq{Steps: h.steps(val), Judge: Judge{Kind: "buf_ne", Step: 1, ExpectHex: want}}}
			}
		}
		c.Witness(fs, p.Name, func(val func(*Term) uint64) any {
			return map[string]any{"fn": p.Name, "args": h.jargs(val), "wire_hex": hexOf(evalBytes(out, val))}
		})
		if !c.Prove(fs, "length", Eq(out.Len, h.ref.Len), mk(p.Name+": output length differs from the reference rendering")) {
			continue
		}
		for _, rg := range h.nums {
			c.Prove(fs, "byteorder:"+rg.Name, regionGoal(out, h.ref, rg.Start, rg.End, 8), mk(fmt.Sprintf("%s: integer region %s is not in %s byte order", p.Name, rg.Name, orderName(p.LE))))
		}
		c.Prove(fs, "bytes", regionGoal(out, h.ref, CI(0), h.ref.Len, 64), mk(p.Name+": output differs from the reference rendering outside the integer regions"))
	}
}

func orderName(le bool) string {
	if le {
		return "little-endian"
	}
	return "big-endian"
}

// c03Reader: feed the reference rendering (declared order) of symbolic values to the reader; it must return them.
func c03Reader(c *Ctx, p primInst, n int) {
	e := c.e()
	// the matching writer instance supplies the reference bytes and the expected values
	wname := "Write" + strings.TrimPrefix(p.Base, "Read")
	wname = strings.Replace(wname, "TrimPadding", "WithPadding", 1)
	var wp *primInst
	targs := p.TArgs
	for _, q := range c.primInstances() {
		q := q
		if q.Base == wname && strings.Join(q.TArgs, ",") == strings.Join(targs, ",") {
			wp = &q
		}
	}
	if wp == nil {
		c.Inconclusive("no writer twin " + wname + " for " + p.Name)
		return
	}
	pad := C(32, '0')
	left := e.freshVar("left", 0)
	h := c.buildWriter(*wp, n, 3, 4, pad, left)
	if h == nil {
		return
	}
	s := h.s
	// canonical texts for fixed-width readers (pad must not sit on the pad side)
	if strings.Contains(p.Family, "FixedString") {
		padB := C(8, '0')
		if p.Family == "ReadFixedStringList" {
			padB = C(8, ' ')
		}
		for _, t := range h.vals {
			s.pc = append(s.pc, Le(t.S.Len, CI(4), true))
			lastC := Or(Eq(t.S.Len, CI(0)), Not(Eq(t.S.At(Sub(t.S.Len, CI(1))), padB)))
			firstC := Or(Eq(t.S.Len, CI(0)), Not(Eq(t.S.At(CI(0)), padB)))
			if p.Family == "ReadFixedStringList" {
				s.pc = append(s.pc, lastC)
			} else {
				s.pc = append(s.pc, Ite(left, firstC, lastC))
			}
		}
	}
	s.heap[h.bufID].B = h.ref
	args := []Value{&Ptr{Obj: h.bufID}}
	sig := p.Fn.Signature
	switch p.Family {
	case "ReadFixedStringList":
		args = append(args, CI(4))
	case "ReadFixedStringListTrimPadding":
		args = append(args, CI(4), pad, left)
	case "ReadObjectList":
		ctor := c.w.fn("codec.NewZzObj")
		args = append(args, &FuncV{Fn: ctor})
	}
	if sig.Params().Len() != len(args) {
		panic(bindErr(fmt.Sprintf("%s: signature has %d parameters, driver built %d", p.Name, sig.Params().Len(), len(args))))
	}
	steps := func(val func(*Term) uint64) []map[string]any {
		ja := []any{map[string]any{"buf": "b"}}
		switch p.Family {
		case "ReadFixedStringList":
			ja = append(ja, "4")
		case "ReadFixedStringListTrimPadding":
			ja = append(ja, "4", fmt.Sprint(val(pad)), val(left) == 1)
		case "ReadObjectList":
			ja = append(ja, nil)
		}
		return []map[string]any{
			step("op", "newbuf", "buf", "b", "hex", hexOf(evalBytes(h.ref, val))),
			step("op", "prim", "fn", p.Name, "args", ja),
		}
	}
	e.pushCall(s, p.Fn, args, nil)
	for _, fs := range e.Run(s) {
		if c.PathProblem(fs, p.Name, func(val func(*Term) uint64, msg string) *Violation {
			return &Violation{Obligation: "no-panic", Detail: p.Name + " panics: " + msg, Replay: &ReplayReq{Steps: steps(val), Judge: Judge{Kind: "panic"}}}
		}) {
			continue
		}
		rv := fs.ret.(TupleV)
		if !isNilErr(rv[1]) {
			c.Prove(fs, "accepts-reference", False, func(val func(*Term) uint64) *Violation {
				return &Violation{Detail: p.Name + " rejects the reference rendering", Replay: &ReplayReq{Steps: steps(val), Judge: Judge{Kind: "err_nonnil", Step: 1}}}
			})
			continue
		}
		c.Witness(fs, p.Name, nil)
		var goals []Goal
		var expectRet func(val func(*Term) uint64) any
		switch res := rv[0].(type) {
		case *Term:
			goals = append(goals, Goal{"value", Eq(res, h.vals[0].T)})
			expectRet = func(val func(*Term) uint64) any { return fmt.Sprint(val(h.vals[0].T)) }
		case *StringV:
			goals = append(goals, Goal{"text", textEq(h.vals[0].S, res.B, 8)})
			expectRet = func(val func(*Term) uint64) any { return concText(h.vals[0], val) }
		case *SliceV:
			want := h.wantList()
			if !res.Len.IsConst() || int(res.Len.Val) != len(want) {
				goals = append(goals, Goal{"count", False})
			} else if res.Obj != 0 {
				o := fs.heap[res.Obj]
				for i, wv := range want {
					var g *Term
					switch {
					case o.Kind == kBytes:
						g = Eq(o.B.At(Add(res.Off, CI(int64(i)))), wv.T)
					case wv.K == 'i':
						el := o.E[int(res.Off.Val)+i]
						if pt, isPtr := el.(*Ptr); isPtr {
							g = Eq(fs.heap[pt.Obj].Val.(*StructV).F[0].(*Term), wv.T)
						} else {
							g = Eq(el.(*Term), wv.T)
						}
					default:
						g = textEq(wv.S, o.E[int(res.Off.Val)+i].(*StringV).B, 8)
					}
					goals = append(goals, Goal{fmt.Sprintf("elem[%d]", i), g})
				}
			}
			expectRet = func(val func(*Term) uint64) any {
				l := []any{}
				for _, wv := range want {
					if wv.K == 'i' {
						if p.Family == "ReadObjectList" {
							l = append(l, map[string]any{"$type": "ZzObj", "V": fmt.Sprint(val(wv.T))})
						} else {
							l = append(l, fmt.Sprint(val(wv.T)))
						}
					} else {
						l = append(l, concText(wv, val))
					}
				}
				return l
			}
		}
		for _, gl := range goals {
			gl := gl
			c.Prove(fs, gl.Name, gl.T, func(val func(*Term) uint64) *Violation {
				return &Violation{Detail: fmt.Sprintf("%s: %s read from the %s rendering differs from the value written", p.Name, gl.Name, orderName(p.LE)),
					Replay: &ReplayReq{Steps: steps(val), Judge: Judge{Kind: "ret_ne", Step: 1, ExpectRet: expectRet(val)}}}
			})
		}
		c.Prove(fs, "consumes-all", Eq(unreadLen(fs.heap[h.bufID]), CI(0)), func(val func(*Term) uint64) *Violation {
			return &Violation{Detail: p.Name + " leaves bytes of the rendering unread", Replay: &ReplayReq{Steps: steps(val), Judge: Judge{Kind: "buf_ne", Step: 1, ExpectHex: ""}}}
		})
	}
}

// wantList: the element values the writer harness generated, as SVals
func (h *primHarness) wantList() []*SVal {
	if len(h.vals) > 0 {
		return h.vals
	}
	var out []*SVal
	sl, ok := h.args[1].(*SliceV)
	if !ok || sl.Obj == 0 {
		return nil
	}
	o := h.s.heap[sl.Obj]
	n := int(sl.Len.Val)
	for i := 0; i < n; i++ {
		if o.Kind == kBytes {
			out = append(out, &SVal{K: 'i', T: o.B.At(CI(int64(i)))})
			continue
		}
		switch x := o.E[i].(type) {
		case *Term:
			out = append(out, &SVal{K: 'i', T: x})
		case *Ptr:
			out = append(out, &SVal{K: 'i', T: h.s.heap[x.Obj].Val.(*StructV).F[0].(*Term)})
		case *StringV:
			out = append(out, &SVal{K: 's', S: x.B, SMax: 8})
		}
	}
	return out
}

var _ = types.Typ

// c03LongList: basic-type list writers/readers far beyond the small shapes (one shared symbolic element value,
// concrete count): block-wise or bulk fast paths that start at a size threshold must keep the declared order.
func c03LongList(c *Ctx, p primInst, n int) {
	e := c.e()
	h := c.buildWriterShared(p, n)
	if h == nil {
		return
	}
	oldU := e.unroll
	e.unroll = n + 8
	defer func() { e.unroll = oldU }()
	el := h.s.heap[h.args[1].(*SliceV).Obj].E[0].(*Term)
	// expected rendering in the declared order
	var exp []*Term
	exp = append(exp, intBytes(C(typeWidth(p.TArgs[0]), uint64(n)), p.LE)...)
	eb := intBytes(el, p.LE)
	for i := 0; i < n; i++ {
		exp = append(exp, eb...)
	}
	expB := VecBytes(exp)
	rname := "Read" + strings.TrimPrefix(p.Base, "Write")
	var rp *primInst
	for _, q := range c.primInstances() {
		q := q
		if q.Base == rname && strings.Join(q.TArgs, ",") == strings.Join(p.TArgs, ",") {
			rp = &q
		}
	}
	wsteps := func(val func(*Term) uint64) []map[string]any {
		return []map[string]any{step("op", "newbuf", "buf", "b", "hex", ""), step("op", "prim", "fn", p.Name, "args", h.jargs(val))}
	}
	e.pushCall(h.s, p.Fn, h.args, nil)
	for _, ws := range e.Run(h.s) {
		if c.PathProblem(ws, p.Name, func(val func(*Term) uint64, msg string) *Violation {
			return &Violation{Obligation: "no-panic", Detail: p.Name + " panics: " + msg, Replay: &ReplayReq{Steps: wsteps(val), Judge: Judge{Kind: "panic"}}}
		}) {
			continue
		}
		if !isNilErr(ws.ret) {
			c.Prove(ws, "succeeds", False, func(val func(*Term) uint64) *Violation {
				return &Violation{Detail: fmt.Sprintf("%s returns an error on %d elements", p.Name, n), Replay: &ReplayReq{Steps: wsteps(val), Judge: Judge{Kind: "err_nonnil", Step: 1}}}
			})
			continue
		}
		out := ws.heap[h.bufID].B
		mk := func(what string) func(val func(*Term) uint64) *Violation {
			return func(val func(*Term) uint64) *Violation {
				return &Violation{Detail: what, Model: map[string]any{"n": n, "element": val(el)},
					Replay: &ReplayReq{Steps: wsteps(val), Judge: Judge{Kind: "buf_ne", Step: 1, ExpectHex: hexOf(evalBytes(expB, val))}}}
			}
		}
		if c.Prove(ws, "length", Eq(out.Len, expB.Len), mk(fmt.Sprintf("%s with %d elements: output length differs from the reference rendering", p.Name, n))) {
			c.Prove(ws, "byteorder:all", regionGoal(out, expB, CI(0), expB.Len, 0), mk(fmt.Sprintf("%s with %d elements: count or elements are not in %s byte order", p.Name, n, orderName(p.LE))))
		}
		c.Witness(ws, "long list", func(val func(*Term) uint64) any { return map[string]any{"fn": p.Name, "n": n, "element": val(el)} })
	}
	if rp == nil {
		return
	}
	// reader: the reference rendering must come back as n times the element
	rs0 := c.w.newState()
	rs0.pc = append(rs0.pc, h.s.pc...)
	bufID := rs0.newObj(&Obj{Kind: kBuffer, B: expB, R: CI(0)})
	rsteps := func(val func(*Term) uint64) []map[string]any {
		return []map[string]any{step("op", "newbuf", "buf", "b", "hex", hexOf(evalBytes(expB, val))), step("op", "prim", "fn", rp.Name, "args", []any{map[string]any{"buf": "b"}})}
	}
	e.pushCall(rs0, rp.Fn, []Value{&Ptr{Obj: bufID}}, nil)
	for _, rs := range e.Run(rs0) {
		if c.PathProblem(rs, rp.Name, func(val func(*Term) uint64, msg string) *Violation {
			return &Violation{Obligation: "no-panic", Detail: rp.Name + " panics: " + msg, Replay: &ReplayReq{Steps: rsteps(val), Judge: Judge{Kind: "panic"}}}
		}) {
			continue
		}
		rv := rs.ret.(TupleV)
		if !isNilErr(rv[1]) {
			c.Prove(rs, "reads-reference", False, func(val func(*Term) uint64) *Violation {
				return &Violation{Detail: fmt.Sprintf("%s rejects the reference rendering of %d elements", rp.Name, n), Replay: &ReplayReq{Steps: rsteps(val), Judge: Judge{Kind: "err_nonnil", Step: 1}}}
			})
			continue
		}
		res := rv[0].(*SliceV)
		var cs []*Term
		cs = append(cs, Eq(res.Len, CI(int64(n))))
		if res.Len.IsConst() && int(res.Len.Val) == n && res.Off.IsConst() {
			o := rs.heap[res.Obj]
			for i := 0; i < n; i++ {
				if t, ok := o.E[int(res.Off.Val)+i].(*Term); ok {
					cs = append(cs, Eq(t, el))
				}
			}
		}
		// native judge: re-encode is not available for a bare list; the values are compared through the writer twin
		c.Prove(rs, "reads-values", And(cs...), func(val func(*Term) uint64) *Violation {
			want := make([]any, n)
			for i := range want {
				want[i] = fmt.Sprint(val(el))
			}
			return &Violation{Detail: fmt.Sprintf("%s on the %s rendering of %d elements does not return them", rp.Name, orderName(p.LE), n), Model: map[string]any{"n": n, "element": val(el)},
				Replay: &ReplayReq{Steps: rsteps(val), Judge: Judge{Kind: "ret_ne", Step: 1, ExpectRet: want}}}
		})
	}
}
