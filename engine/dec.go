package main

// Decoders on arbitrary input: C08 (decode then encode reproduces the accepted bytes), C09 (never panics or
// hangs), C10 (allocation proportional to input), C15 (result independent of the receiver's previous content).
//
// Message level: the input is the reference rendering of a value whose every wire byte is arbitrary inside a
// list shape (fixed text: W arbitrary bytes; scalars: arbitrary; prefixed text: arbitrary length <= P and bytes).
// Primitive level: every reader instantiation runs on a fully arbitrary byte string (counts and lengths included).

import (
	"encoding/hex"
	"encoding/json"
	"fmt"
	"go/types"
	"os"
	"strings"
)

func init() {
	shapeBounds := func(tier string) map[string]any {
		if tier == "thorough" {
			return map[string]any{"message_inputs": "every wire image whose list counts are uniform 0..3 and prefixed-text lengths <= 12: all other bytes arbitrary; every registered key", "primitive_inputs": "every byte string of length 0..24 (symbolic length and content, arbitrary counts/lengths)"}
		}
		return map[string]any{"message_inputs": "every wire image whose list counts are uniform 0..2 and prefixed-text lengths <= 4: all other bytes arbitrary; every registered key", "primitive_inputs": "every byte string of length 0..12 (symbolic length and content, arbitrary counts/lengths)"}
	}
	drivers["C08"] = &Driver{Prop: "C08", Level: "model_checking",
		Explain: "for every type/key/shape the real Decode runs on an arbitrary wire image (all bytes symbolic inside the shape) followed by 2 arbitrary bytes; on every accepting path the real Encode of the decoded object runs into an empty buffer and its output is compared region by region with the bytes Decode consumed (computed length/checksum regions against their correct values)",
		Assume:  []string{"standard-library contracts listed under trusted_base", "the pinned schema only supplies the shape of the inputs (where counts and length prefixes sit), not the expected output: the oracle is the input itself"},
		Bounds:  shapeBounds,
		Items: func(c *Ctx) []Item {
			var items []Item
			for _, mc := range c.msgCases(shapeNs(c), false, false) {
				mc := mc
				items = append(items, Item{ID: mc.ID(), Run: func(c *Ctx) { c08(c, mc) }})
			}
			items = append(items, c.arbItems(arbMode{reencode: true})...)
			return items
		}}
	drivers["C15"] = &Driver{Prop: "C15", Level: "model_checking",
		Explain: "for every type/key/shape the real Decode runs on the same arbitrary wire image twice: into a fresh receiver and into a dirty receiver (non-empty lists, body/extension of a different registered type, non-nil nested parts holding symbolic data); error-ness, consumption and every field of the two results must agree",
		Assume:  []string{"standard-library contracts listed under trusted_base", "dirty receivers: lists of length 2, body of the next registered key, all scalars/text symbolic"},
		Bounds:  shapeBounds,
		Items: func(c *Ctx) []Item {
			var items []Item
			for _, mc := range c.msgCases(shapeNs(c), false, false) {
				mc := mc
				items = append(items, Item{ID: mc.ID(), Run: func(c *Ctx) { c15(c, mc, false) }})
				if mc.N == 2 && c.sameTypedLists(mc.Mod, mc.Typ) {
					// a dirty receiver whose same-typed lists share one backing array (a caller that put one slice
					// into two fields): storage-reusing decoders must not let one list overwrite the other
					items = append(items, Item{ID: mc.ID() + "/aliased-lists", Run: func(c *Ctx) { c15(c, mc, true) }})
				}
			}
			for _, mod := range modules {
				ms := c.sc.Mods[mod]
				for _, tn := range ms.TableNames() {
					mod, tab := mod, ms.Tables[tn]
					items = append(items, Item{ID: fmt.Sprintf("unknownkey:%s.%s", mod, tab.Owner), Run: func(c *Ctx) { c15unknown(c, mod, tab) }})
				}
			}
			return items
		}}
	drivers["C09"] = &Driver{Prop: "C09", Level: "model_checking",
		Explain: "(a) message level: the real Decode runs on every prefix (symbolic cut) of an arbitrary wire image: no panic side condition (nil dereference, index/slice bounds, make size, type assertion, nil map, negative Repeat) may be satisfiable on any path, every path returns, executed instructions stay below a linear bound; (b) unregistered discriminator values (symbolic) must yield an error; (c) primitive level: every reader instantiation on a fully arbitrary byte string: same side conditions, plus a single allocation request above 2^32 bytes is treated as a possible process abort; list-reader loops must consume input or stop (progress, so no loop outlives its input)",
		Assume:  []string{"standard-library contracts listed under trusted_base", "Go turns an allocation request the OS cannot satisfy into a fatal, unrecoverable error: requests above 2^32 bytes are reported as possible aborts"},
		Bounds:  shapeBounds,
		Items: func(c *Ctx) []Item {
			var items []Item
			for _, mc := range c.msgCases(shapeNs(c), false, false) {
				mc := mc
				items = append(items, Item{ID: "msg:" + mc.ID(), Run: func(c *Ctx) { c09msg(c, mc) }})
			}
			for _, mod := range modules {
				ms := c.sc.Mods[mod]
				for _, tn := range ms.TableNames() {
					mod, tab := mod, ms.Tables[tn]
					items = append(items, Item{ID: fmt.Sprintf("unknownkey:%s.%s", mod, tab.Owner), Run: func(c *Ctx) { c09unknownKey(c, mod, tab) }})
				}
			}
			for _, p := range c.primInstances() {
				p := p
				if strings.HasPrefix(p.Family, "Read") {
					items = append(items, Item{ID: "prim:" + p.Name, Run: func(c *Ctx) { decPrim(c, p, true, false) }})
				}
			}
			items = append(items, c.arbItems(arbMode{noPanic: true})...)
			items = append(items, c.primLongItems(true, false)...)
			return items
		}}
	drivers["C10"] = &Driver{Prop: "C10", Level: "model_checking",
		Explain: "ghost allocation records of the executor (every make/new/append growth/string conversion/Repeat/boxing with its byte size and the number of unread input bytes at that moment): (a) every reader instantiation on a fully arbitrary byte string: each data-dependent allocation must satisfy size <= 64*(input bytes) + 64; (b) message level on arbitrary wire images: the same bound for every allocation on every path, and the path total <= 4096 + 64*fields + 64*n. Counterexamples are re-asked with size >= 2^20 so that the native TotalAlloc measurement is unambiguous",
		Assume:  []string{"standard-library contracts listed under trusted_base", "append growth is over-approximated as 2*need+64 bytes", "message decoders allocate input-dependent sizes only through the codec readers (checked on the explored paths)"},
		Bounds:  shapeBounds,
		Items: func(c *Ctx) []Item {
			var items []Item
			for _, p := range c.primInstances() {
				p := p
				if strings.HasPrefix(p.Family, "Read") {
					items = append(items, Item{ID: "prim:" + p.Name, Run: func(c *Ctx) { decPrim(c, p, false, true) }})
				}
			}
			for _, mc := range c.msgCases(shapeNs(c), false, false) {
				mc := mc
				items = append(items, Item{ID: "msg:" + mc.ID(), Run: func(c *Ctx) { c10msg(c, mc) }})
			}
			items = append(items, c.arbItems(arbMode{alloc: true})...)
			items = append(items, c.primLongItems(false, true)...)
			return items
		}}
}

func shapeNs(c *Ctx) []int {
	if c.thorough() {
		return []int{0, 1, 2, 3}
	}
	return []int{0, 1, 2}
}

// rawHarness: arbitrary wire image for the case + tail bytes; returns harness, image (without tail), tail.
func (c *Ctx) rawHarness(mc MsgCase, tailN int) (*harness, *Bytes, []Region, []*Term) {
	h := c.newHarness(mc, "raw", 0)
	e := c.e()
	// any trailer/length values: arbitrary
	h.ref.Sum = func(alg string, frame *Bytes) *Term { return e.freshVar("wiresum", 32) }
	// computed length on the wire is arbitrary too: patch after reference rendering
	h.ref.Leaves = nil
	w, _ := h.ref.Enc(h.m)
	leaves := h.ref.Leaves
	fi := c.frameInfo(mc.Mod, mc.Typ)
	if fi != nil && fi.LenOff >= 0 {
		var lb []*Term
		for i := 0; i < fi.LenSize; i++ {
			lb = append(lb, e.freshVar("wirelen", 8))
		}
		w = UpdateBytes(w, CI(int64(fi.LenOff)), lb)
	}
	var tail []*Term
	for i := 0; i < tailN; i++ {
		tail = append(tail, e.freshVar("tail", 8))
	}
	return h, w, leaves, tail
}

func decodeSteps(mc MsgCase, input []byte) []map[string]any {
	return []map[string]any{
		step("op", "newbuf", "buf", "b", "hex", hexOf(input)),
		step("op", "newmsg", "msg", "d", "module", mc.Mod, "type", mc.Typ),
		step("op", "decode", "msg", "d", "buf", "b"),
	}
}

func c08(c *Ctx, mc MsgCase) {
	h, w, leaves, tail := c.rawHarness(mc, 2)
	e := c.e()
	s := h.s
	in := Concat2(w, VecBytes(tail))
	s.heap[h.bufID].B = in
	input := func(val func(*Term) uint64) []byte { return evalBytes(in, val) }
	d := h.freshReceiver(s)
	fi := c.frameInfo(mc.Mod, mc.Typ)
	e.pushCall(s, h.dec, []Value{d, &Ptr{Obj: h.bufID}}, nil)
	for _, ds := range e.Run(s) {
		if c.PathProblem(ds, "Decode", func(val func(*Term) uint64, msg string) *Violation {
			return &Violation{Obligation: "decode-no-panic", Detail: "Decode panics: " + msg, Replay: &ReplayReq{Steps: decodeSteps(mc, input(val)), Judge: Judge{Kind: "panic"}}}
		}) {
			continue
		}
		if !isNilErr(ds.ret) {
			// a rejecting path: nothing to re-encode (whether it should have been accepted is C02's subject)
			c.res.Obl++
			c.res.Dis++
			continue
		}
		consumed := ds.heap[h.bufID].R
		full := func(val func(*Term) uint64) []map[string]any {
			st := decodeSteps(mc, input(val))
			return append(st, step("op", "newbuf", "buf", "o", "hex", ""), step("op", "encode", "msg", "d", "buf", "o"))
		}
		mkc := func(what string) func(val func(*Term) uint64) *Violation {
			return func(val func(*Term) uint64) *Violation {
				inp := input(val)
				k := int(val(consumed))
				if k > len(inp) {
					k = len(inp)
				}
				j := Judge{Kind: "buf_ne", Step: 4, ExpectHex: hexOf(inp[:k])}
				if fi != nil && (fi.LenOff >= 0 || fi.Alg != "") {
					j = Judge{Kind: "reencode_frame", Step: 4, ExpectHex: hexOf(inp[:k]), Frame: fi}
				}
				return &Violation{Detail: what, Model: map[string]any{"input_hex": hexOf(inp), "consumed": k}, Replay: &ReplayReq{Steps: full(val), Judge: j}}
			}
		}
		if !c.Prove(ds, "consumes-image", Eq(consumed, w.Len), mkc("Decode accepts the image but does not consume exactly its bytes")) {
			continue
		}
		out := ds.newObj(&Obj{Kind: kBuffer, B: EmptyBytes(), R: CI(0)})
		e.pushCall(ds, h.enc, []Value{d, &Ptr{Obj: out}}, nil)
		for _, es := range e.Run(ds) {
			if c.PathProblem(es, "Encode(decoded)", func(val func(*Term) uint64, msg string) *Violation {
				return &Violation{Obligation: "reencode-no-panic", Detail: "re-encoding a decoded message panics: " + msg, Replay: &ReplayReq{Steps: full(val), Judge: Judge{Kind: "panic"}}}
			}) {
				continue
			}
			if !encOK(h, es) {
				c.Prove(es, "reencode-succeeds", False, func(val func(*Term) uint64) *Violation {
					return &Violation{Detail: "re-encoding a decoded message returns an error", Replay: &ReplayReq{Steps: full(val), Judge: Judge{Kind: "err_nonnil", Step: 4}}}
				})
				continue
			}
			ob := unread(es.heap[out])
			c.Witness(es, "decode-encode", func(val func(*Term) uint64) any {
				return map[string]any{"input_hex": hexOf(input(val)), "reencoded_hex": hexOf(evalBytes(ob, val))}
			})
			if !c.Prove(es, "reencoded-length", Eq(ob.Len, w.Len), mkc("re-encoded length differs from the number of bytes consumed")) {
				continue
			}
			// expected image: the input with computed fields replaced by their correct values
			exp := w
			if fi != nil {
				so := h.sumOracle(es)
				little := c.sc.Mods[mc.Mod].Types[mc.Typ].Little()
				if fi.LenOff >= 0 {
					n := Sub(w.Len, CI(int64(fi.HdrSize+fi.SumSize)))
					exp = OverwriteBytes(exp, CI(int64(fi.LenOff)), VecBytes(intBytes(Extract(fi.LenSize*8-1, 0, n), little)))
				}
				if fi.Alg != "" {
					frame := SliceBytes(ob, CI(0), Sub(ob.Len, CI(int64(fi.SumSize))))
					exp = OverwriteBytes(exp, Sub(w.Len, CI(int64(fi.SumSize))), VecBytes(intBytes(so(fi.Alg, frame), little)))
				}
			}
			for _, rg := range leaves {
				c.Prove(es, "bytes:"+rg.Name, regionGoal(ob, exp, rg.Start, rg.End, h.g.P+260), mkc(fmt.Sprintf("re-encoding does not reproduce the wire bytes of %s", rg.Name)))
			}
		}
	}
}

func (c *Ctx) dirtyReceiver(h *harness, s *State, mc MsgCase) *Ptr {
	g2 := c.newGen(mc, "wide")
	g2.pfx = "dirty_"
	g2.ListLen = func(path string, f *FieldSpec) int { return 2 }
	g2.KeyOf = func(tab *TableSpec, path string) int {
		if path == "" && mc.Key >= 0 {
			return (mc.Key + 1) % len(tab.Entries)
		}
		return (mc.Inner + 1) % len(tab.Entries)
	}
	dv := g2.Object(s, mc.Mod, mc.Typ, "")
	// the discriminator fields of the dirty receiver are arbitrary too (not tied to the body it holds): a receiver
	// left behind by a failed decode, or filled by hand, may pair any key with any body
	var loosen func(v *SVal)
	loosen = func(v *SVal) {
		if v == nil || v.K != 'o' {
			return
		}
		ts := c.sc.Mods[v.Mod].Types[v.Typ]
		if bf := ts.BodyField(); bf != nil {
			for i := range ts.Fields {
				if ts.Fields[i].Go != bf.Key {
					continue
				}
				switch ts.Fields[i].Kind {
				case "fixstr":
					v.F[i] = g2.symText(s, "dirty_key", ts.Fields[i].Width)
				default:
					v.F[i] = &SVal{K: 'i', T: c.e().freshVar("dirty_key", typeWidth(ts.Fields[i].Type))}
				}
			}
		}
		for _, f := range v.F {
			loosen(f)
			if f != nil {
				for _, l := range f.L {
					loosen(l)
				}
			}
		}
	}
	loosen(dv)
	return g2.MaterializePtr(s, dv)
}

// sameTypedLists: the type has two top-level list fields of the same Go type.
func (c *Ctx) sameTypedLists(mod, tn string) bool {
	T := c.w.typeOf(mod, tn)
	if T == nil {
		return false
	}
	st, ok := T.Underlying().(*types.Struct)
	if !ok {
		return false
	}
	for i := 0; i < st.NumFields(); i++ {
		if _, ok := st.Field(i).Type().Underlying().(*types.Slice); !ok {
			continue
		}
		for j := i + 1; j < st.NumFields(); j++ {
			if types.Identical(st.Field(i).Type(), st.Field(j).Type()) {
				return true
			}
		}
	}
	return false
}

// c15unknown: an image whose discriminator is not registered, decoded into a fresh and into a dirty receiver:
// same outcome, and when both accept (a lenient decoder) the same fields - whatever the receiver held before.
func c15unknown(c *Ctx, mod string, tab *TableSpec) {
	c15impl(c, MsgCase{Mod: mod, Typ: tab.Owner, Key: -1}, false, tab)
}

func c15(c *Ctx, mc MsgCase, aliased bool) { c15impl(c, mc, aliased, nil) }

func c15impl(c *Ctx, mc MsgCase, aliased bool, unknown *TableSpec) {
	if hx := os.Getenv("VF_DBG_HEX"); hx != "" {
		// debugging aid: decode a concrete input in the executor and print what it does with it
		raw, _ := hex.DecodeString(hx)
		h := c.newHarness(mc, "raw", 0)
		s := h.s
		s.heap[h.bufID].B = ConstBytes(string(raw))
		d := h.freshReceiver(s)
		c.e().pushCall(s, h.dec, []Value{d, &Ptr{Obj: h.bufID}}, nil)
		for _, fs := range c.e().Run(s) {
			fmt.Fprintf(os.Stderr, "DBG path: panic=%q cut=%q nilerr=%v consumed=%v\n", fs.panicd, fs.cut, isNilErr(fs.ret), fs.heap[h.bufID].R)
		}
		return
	}
	var h *harness
	var w *Bytes
	var tail []*Term
	if unknown == nil {
		h, w, _, tail = c.rawHarness(mc, 2)
	} else {
		// as in C09's unknownkey items: the key field is symbolic and excluded from the registered keys, no body in
		// the image, 8 arbitrary bytes follow
		h = c.newHarness(mc, "raw", 0)
		ts := c.sc.Mods[mc.Mod].Types[mc.Typ]
		bf := ts.BodyField()
		for i := range ts.Fields {
			if ts.Fields[i].Go != bf.Key {
				continue
			}
			kv := h.m.F[i]
			for _, en := range unknown.Entries {
				switch k := en[0].(type) {
				case string:
					tr := refTrim(kv.S.Norm().Vec, &ts.Fields[i])
					h.s.pc = append(h.s.pc, Not(strEqTerm(tr, ConstBytes(k))))
				case float64:
					h.s.pc = append(h.s.pc, Not(Eq(kv.T, C(kv.T.W, uint64(k)))))
				}
			}
		}
		h.ref.Sum = func(alg string, frame *Bytes) *Term { return c.e().freshVar("wiresum", 32) }
		w, _ = h.ref.Enc(h.m)
		for i := 0; i < 8; i++ {
			tail = append(tail, c.e().freshVar("tail", 8))
		}
	}
	e := c.e()
	s := h.s
	in := Concat2(w, VecBytes(tail))
	s.heap[h.bufID].B = in
	buf2 := s.newObj(&Obj{Kind: kBuffer, B: in, R: CI(0)})
	input := func(val func(*Term) uint64) []byte { return evalBytes(in, val) }
	fresh := h.freshReceiver(s)
	dmc := mc
	if unknown != nil {
		dmc.Key = 0 // the dirty receiver holds a registered body/extension
	}
	dirty := c.dirtyReceiver(h, s, dmc)
	if aliased {
		// every later list field of the same type becomes the very slice of the first one
		o := s.heap[dirty.Obj]
		if sv, ok := o.Val.(*StructV); ok {
			st := h.T.Underlying().(*types.Struct)
			nf := append([]Value{}, sv.F...)
			for i := 0; i < st.NumFields(); i++ {
				si, ok := nf[i].(*SliceV)
				if !ok {
					continue
				}
				for j := i + 1; j < st.NumFields(); j++ {
					if _, ok := nf[j].(*SliceV); ok && types.Identical(st.Field(i).Type(), st.Field(j).Type()) {
						nf[j] = &SliceV{Obj: si.Obj, Off: si.Off, Len: si.Len, Cap: si.Cap}
					}
				}
			}
			o.Val = &StructV{F: nf}
		}
	}
	dirtyBefore := h.g.Snapshot(s, dirty, mc.Mod, mc.Typ)
	steps := func(val func(*Term) uint64) []map[string]any {
		hx := hexOf(input(val))
		if aliased {
			return []map[string]any{
				step("op", "newbuf", "buf", "b1", "hex", hx),
				step("op", "newmsg", "msg", "f", "module", mc.Mod, "type", mc.Typ),
				step("op", "decode", "msg", "f", "buf", "b1"),
				step("op", "newbuf", "buf", "b2", "hex", hx),
				step("op", "newmsg", "msg", "r", "module", mc.Mod, "type", mc.Typ, "value", h.g.Concretize(dirtyBefore, val)),
				step("op", "aliaslists", "msg", "r"),
				step("op", "decode", "msg", "r", "buf", "b2"),
			}
		}
		return []map[string]any{
			step("op", "newbuf", "buf", "b1", "hex", hx),
			step("op", "newmsg", "msg", "f", "module", mc.Mod, "type", mc.Typ),
			step("op", "decode", "msg", "f", "buf", "b1"),
			step("op", "newbuf", "buf", "b2", "hex", hx),
			step("op", "newmsg", "msg", "r", "module", mc.Mod, "type", mc.Typ, "value", h.g.Concretize(dirtyBefore, val)),
			step("op", "decode", "msg", "r", "buf", "b2"),
		}
	}
	judge := Judge{Kind: "two_msgs_ne", Step: 2, Step2: 5}
	if aliased {
		judge.Step2 = 6
	}
	e.pushCall(s, h.dec, []Value{fresh, &Ptr{Obj: h.bufID}}, nil)
	for _, fs := range e.Run(s) {
		if c.PathProblem(fs, "Decode(fresh)", nil) {
			continue
		}
		e.pushCall(fs, h.dec, []Value{dirty, &Ptr{Obj: buf2}}, nil)
		for _, ds := range e.Run(fs) {
			if c.PathProblem(ds, "Decode(dirty)", func(val func(*Term) uint64, msg string) *Violation {
				return &Violation{Obligation: "no-panic", Detail: "Decode into a receiver holding earlier content panics: " + msg, Replay: &ReplayReq{Steps: steps(val), Judge: Judge{Kind: "panic"}}}
			}) {
				continue
			}
			mk := func(what string) func(val func(*Term) uint64) *Violation {
				return func(val func(*Term) uint64) *Violation {
					if os.Getenv("VF_DEBUG_PC") != "" {
						js, _ := json.Marshal(h.g.Concretize(h.m, val))
						fmt.Fprintln(os.Stderr, "MODEL MSG", string(js))
						fmt.Fprintln(os.Stderr, "MODEL INPUT", hexOf(input(val)), "len", val(in.Len), "wlen", val(w.Len))
					}
					return &Violation{Detail: what, Model: map[string]any{"input_hex": hexOf(input(val))}, Replay: &ReplayReq{Steps: steps(val), Judge: judge}}
				}
			}
			okF, okD := isNilErr(fs.ret), isNilErr(ds.ret)
			if okF != okD {
				c.Prove(ds, "same-outcome", False, mk("the same bytes are accepted into one receiver and rejected into the other"))
				continue
			}
			c.Prove(ds, "same-consumption", Eq(ds.heap[h.bufID].R, ds.heap[buf2].R), mk("decoding into a dirty receiver consumes a different number of bytes"))
			if !okF {
				continue
			}
			a := h.g.Snapshot(ds, fresh, mc.Mod, mc.Typ)
			b := h.g.Snapshot(ds, dirty, mc.Mod, mc.Typ)
			var goals []Goal
			h.g.EqualGoals(a, b, "", &goals)
			for _, gl := range goals {
				gl := gl
				c.Prove(ds, "field"+gl.Name, gl.T, mk("after decoding the same bytes, field "+gl.Name+" of a reused receiver differs from that of a fresh one"))
			}
			c.Witness(ds, "fresh vs dirty", func(val func(*Term) uint64) any { return map[string]any{"input_hex": hexOf(input(val))} })
		}
	}
}

const abortBytes = int64(1) << 32

// checkAllocs: obligations over the ghost allocation records of a final state.
func (c *Ctx) checkAllocs(st *State, where string, inLen *Term, wantProportional bool, wantNoAbort bool, replay func(val func(*Term) uint64, j Judge) *ReplayReq) {
	for _, ar := range st.allocs {
		ar := ar
		if ar.Size.IsConst() {
			if wantProportional && int64(ar.Size.Val) > 1<<16 {
				c.Prove(st, "constant-allocation-small", False, nil)
			}
			continue
		}
		guard := ar.Guard
		if guard == nil {
			guard = True
		}
		if wantNoAbort {
			c.Prove(st, "no-abort-sized-allocation@"+ar.Site, Implies(guard, Lt(ar.Size, CI(abortBytes), true)), func(val func(*Term) uint64) *Violation {
				return &Violation{Detail: fmt.Sprintf("%s: a single allocation of %d bytes is requested at %s (possible process abort)", where, val(ar.Size), ar.Site),
					Model: map[string]any{"size": val(ar.Size)}, Replay: replay(val, Judge{Kind: "abort"})}
			})
		}
		if wantProportional {
			// budget: a small multiple of the input bytes actually present (whole input) plus a constant
			avail := inLen
			bound := Add(MulC(avail, 64), CI(64))
			goal := Implies(guard, Le(ar.Size, bound, true))
			c.res.Obl++
			sv := c.e().solver
			ng := Not(goal)
			r := "unsat"
			if goal != True {
				r = sv.CheckFlat(append(append([]*Term{}, st.pc...), ng)...)
			}
			if r == "unsat" {
				c.res.Dis++
				continue
			}
			if r != "sat" {
				c.res.Inconcl = append(c.res.Inconcl, "allocation bound at "+ar.Site+": solver answered unknown")
				continue
			}
			// ask for a large instance so that the native measurement is unambiguous
			for _, floor := range []int64{1 << 24, 1 << 20, 1 << 16} {
				big := And(guard, Le(CI(floor), ar.Size, true), Le(ar.Size, CI(1<<28), true))
				if sv.CheckFlat(append(append([]*Term{}, st.pc...), big)...) == "sat" {
					break
				}
				sv.CheckFlat(append(append([]*Term{}, st.pc...), ng)...)
			}
			val := func(t *Term) uint64 { v, _ := sv.Value(t); return v }
			sz := val(ar.Size)
			av := val(avail)
			v := Violation{Property: c.prop, Item: c.item, Obligation: "allocation-proportional@" + ar.Site,
				Detail: fmt.Sprintf("%s: %d bytes are allocated at %s while only %d input bytes are present", where, sz, ar.Site, av),
				Model:  map[string]any{"size": sz, "available": av}}
			v.Replay = replay(val, Judge{Kind: "alloc_gt", Bound: 64*av + 64 + (1 << 15)})
			sv.Done()
			c.res.Viol = append(c.res.Viol, v)
		}
	}
}

func c09msg(c *Ctx, mc MsgCase) {
	h, w, _, _ := c.rawHarness(mc, 0)
	e := c.e()
	s := h.s
	_, hi, ok := boundsOf(w.Len)
	if !ok {
		c.Inconclusive("image length has no bound")
		return
	}
	k := e.boundedVar(s, "cut", 0, hi)
	s.pc = append(s.pc, Le(k, w.Len, true))
	in := SliceBytes(w, CI(0), k)
	s.heap[h.bufID].B = in
	e.watchBuf = h.bufID
	defer func() { e.watchBuf = 0 }()
	input := func(val func(*Term) uint64) []byte {
		full := evalBytes(w, val)
		n := int(val(k))
		if n > len(full) {
			n = len(full)
		}
		return full[:n]
	}
	d := h.freshReceiver(s)
	steps0 := s.steps
	e.pushCall(s, h.dec, []Value{d, &Ptr{Obj: h.bufID}}, nil)
	nfields := len(c.sc.Mods[mc.Mod].Types[mc.Typ].Fields)
	for _, ds := range e.Run(s) {
		if c.PathProblem(ds, "Decode", func(val func(*Term) uint64, msg string) *Violation {
			return &Violation{Obligation: "decode-no-panic", Detail: "Decode panics: " + msg, Model: map[string]any{"input_hex": hexOf(input(val))}, Replay: &ReplayReq{Steps: decodeSteps(mc, input(val)), Judge: Judge{Kind: "panic"}}}
		}) {
			continue
		}
		// returns normally: a message or an error
		c.res.Obl++
		c.res.Dis++
		used := ds.steps - steps0
		limit := 4000 + 400*nfields + 400*int(hi)
		c.Prove(ds, "linear-time", B(used <= limit), nil)
		c.lockLeak(ds, mc, input)
		c.checkAllocs(ds, "Decode", in.Len, false, true, func(val func(*Term) uint64, j Judge) *ReplayReq {
			return &ReplayReq{Steps: decodeSteps(mc, input(val)), Judge: j}
		})
	}
	c.Witness(s, "arbitrary prefix", func(val func(*Term) uint64) any { return map[string]any{"input_hex": hexOf(input(val))} })
}

func c10msg(c *Ctx, mc MsgCase) {
	h, w, _, tail := c.rawHarness(mc, 2)
	e := c.e()
	s := h.s
	in := Concat2(w, VecBytes(tail))
	s.heap[h.bufID].B = in
	e.watchBuf = h.bufID
	defer func() { e.watchBuf = 0 }()
	input := func(val func(*Term) uint64) []byte { return evalBytes(in, val) }
	d := h.freshReceiver(s)
	nAlloc0 := len(s.allocs)
	e.pushCall(s, h.dec, []Value{d, &Ptr{Obj: h.bufID}}, nil)
	for _, ds := range e.Run(s) {
		if c.PathProblem(ds, "Decode", nil) {
			continue
		}
		ds.allocs = ds.allocs[nAlloc0:]
		c.checkAllocs(ds, "Decode", in.Len, true, false, func(val func(*Term) uint64, j Judge) *ReplayReq {
			return &ReplayReq{Steps: decodeSteps(mc, input(val)), Judge: j}
		})
		// path total
		total := CI(0)
		for _, ar := range ds.allocs {
			g := ar.Guard
			if g == nil {
				g = True
			}
			total = Add(total, Ite(g, ar.Size, CI(0)))
		}
		nf := 0
		var cnt func(v *SVal)
		cnt = func(v *SVal) {
			if v == nil {
				return
			}
			nf++
			for _, f := range v.F {
				cnt(f)
			}
			for _, l := range v.L {
				cnt(l)
			}
		}
		cnt(h.m)
		bound := Add(MulC(in.Len, 64), CI(int64(4096+64*nf)))
		// interval reasoning first: the sum of the upper bounds of all records against the lower bound of the budget
		if blo, _, okb := boundsOf(bound); okb {
			sum, all := int64(0), true
			for _, ar := range ds.allocs {
				_, hi, ok := boundsOf(ar.Size)
				if !ok {
					if os.Getenv("VF_DEBUG") != "" {
						fmt.Fprintln(os.Stderr, "no bound for alloc at", ar.Site, dumpTerm(ar.Size, 4))
					}
					all = false
					break
				}
				sum += hi
			}
			if all && sum <= blo {
				c.res.Obl++
				c.res.Dis++
				c.res.Syntactic++
				c.Witness(ds, "alloc", func(val func(*Term) uint64) any {
					return map[string]any{"input_bytes": val(in.Len), "ghost_allocated_bytes_upper_bound": sum}
				})
				continue
			}
		}
		c.Prove(ds, "total-allocation-proportional", Le(total, bound, true), func(val func(*Term) uint64) *Violation {
			return &Violation{Detail: fmt.Sprintf("Decode allocates %d bytes in total for %d input bytes", val(total), val(in.Len)),
				Replay: &ReplayReq{Steps: decodeSteps(mc, input(val)), Judge: Judge{Kind: "alloc_gt", Bound: 64*val(in.Len) + uint64(4096+64*nf) + (1 << 15)}}}
		})
		c.Witness(ds, "alloc", func(val func(*Term) uint64) any {
			return map[string]any{"input_bytes": val(in.Len), "ghost_allocated_bytes": val(total)}
		})
	}
}

func c09unknownKey(c *Ctx, mod string, tab *TableSpec) {
	mc := MsgCase{Mod: mod, Typ: tab.Owner, Key: -1}
	h := c.newHarness(mc, "raw", 0)
	e := c.e()
	s := h.s
	ts := c.sc.Mods[mod].Types[tab.Owner]
	bf := ts.BodyField()
	// the key field is symbolic (Key=-1): exclude the registered keys; body absent in the image, 8 arbitrary bytes follow
	for i := range ts.Fields {
		if ts.Fields[i].Go != bf.Key {
			continue
		}
		kv := h.m.F[i]
		for _, en := range tab.Entries {
			switch k := en[0].(type) {
			case string:
				// the decoder sees the trimmed text of the raw field
				tr := refTrim(kv.S.Norm().Vec, &ts.Fields[i])
				s.pc = append(s.pc, Not(strEqTerm(tr, ConstBytes(k))))
			case float64:
				s.pc = append(s.pc, Not(Eq(kv.T, C(kv.T.W, uint64(k)))))
			}
		}
	}
	h.ref.Sum = func(alg string, frame *Bytes) *Term { return e.freshVar("wiresum", 32) }
	w, _ := h.ref.Enc(h.m)
	var tail []*Term
	for i := 0; i < 8; i++ {
		tail = append(tail, e.freshVar("tail", 8))
	}
	in := Concat2(w, VecBytes(tail))
	s.heap[h.bufID].B = in
	input := func(val func(*Term) uint64) []byte { return evalBytes(in, val) }
	c.Witness(s, "unregistered key on the wire", func(val func(*Term) uint64) any { return map[string]any{"input_hex": hexOf(input(val))} })
	d := h.freshReceiver(s)
	e.pushCall(s, h.dec, []Value{d, &Ptr{Obj: h.bufID}}, nil)
	for _, ds := range e.Run(s) {
		if c.PathProblem(ds, "Decode(unregistered key)", func(val func(*Term) uint64, msg string) *Violation {
			return &Violation{Obligation: "decode-no-panic", Detail: "Decode panics on an unregistered discriminator: " + msg, Replay: &ReplayReq{Steps: decodeSteps(mc, input(val)), Judge: Judge{Kind: "panic"}}}
		}) {
			continue
		}
		if isNilErr(ds.ret) {
			c.Prove(ds, "unregistered-key-is-an-error", False, func(val func(*Term) uint64) *Violation {
				return &Violation{Detail: "Decode accepts a message whose discriminator is not registered", Model: map[string]any{"input_hex": hexOf(input(val))},
					Replay: &ReplayReq{Steps: decodeSteps(mc, input(val)), Judge: Judge{Kind: "err_nil", Step: 2}}}
			})
			continue
		}
		c.res.Obl++
		c.res.Dis++
		c.lockLeak(ds, mc, input)
		// the same frame once more in the state the first attempt left behind (look-up memos, negative caches,
		// leaked locks): it must be refused again, without panic
		twice := func(val func(*Term) uint64) []map[string]any {
			st := decodeSteps(mc, input(val))
			return append(st, step("op", "newbuf", "buf", "b2", "hex", hexOf(input(val))), step("op", "newmsg", "msg", "d2", "module", mc.Mod, "type", mc.Typ), step("op", "decode", "msg", "d2", "buf", "b2"))
		}
		buf2 := ds.newObj(&Obj{Kind: kBuffer, B: in, R: CI(0)})
		d2 := h.freshReceiver(ds)
		ds.frames = nil
		e.pushCall(ds, h.dec, []Value{d2, &Ptr{Obj: buf2}}, nil)
		for _, ds2 := range e.Run(ds) {
			if ds2.cut != "" && strings.HasPrefix(ds2.cut, "deadlock") {
				c.Prove(ds2, "second-attempt-returns", False, func(val func(*Term) uint64) *Violation {
					return &Violation{Detail: "decoding the same unregistered frame again blocks: " + ds2.cut, Replay: &ReplayReq{Steps: append(decodeSteps(mc, input(val)), step("op", "lockprobe", "module", mc.Mod)), Judge: Judge{Kind: "hang"}}}
				})
				continue
			}
			if c.PathProblem(ds2, "Decode(unregistered key, second attempt)", func(val func(*Term) uint64, msg string) *Violation {
				return &Violation{Obligation: "second-attempt-no-panic", Detail: "decoding the same unregistered frame a second time panics: " + msg, Model: map[string]any{"input_hex": hexOf(input(val))},
					Replay: &ReplayReq{Steps: twice(val), Judge: Judge{Kind: "panic"}}}
			}) {
				continue
			}
			if isNilErr(ds2.ret) {
				c.Prove(ds2, "second-attempt-is-an-error", False, func(val func(*Term) uint64) *Violation {
					return &Violation{Detail: "the second decode of a frame with an unregistered discriminator succeeds", Model: map[string]any{"input_hex": hexOf(input(val))},
						Replay: &ReplayReq{Steps: twice(val), Judge: Judge{Kind: "err_nil", Step: 5}}}
				})
				continue
			}
			c.res.Obl++
			c.res.Dis++
		}
	}
}

// decPrim: a reader instantiation on a fully arbitrary byte string of symbolic length.
func decPrim(c *Ctx, p primInst, wantNoPanic, wantAlloc bool) {
	e := c.e()
	s := c.w.newState()
	nIn := 12
	if c.thorough() {
		nIn = 24
	}
	g := &Gen{w: c.w, sc: c.sc}
	t := g.symText(s, "in", nIn)
	bufID := s.newObj(&Obj{Kind: kBuffer, B: t.S, R: CI(0)})
	e.watchBuf = bufID
	oldUnroll := e.unroll
	e.unroll = nIn + 2
	defer func() { e.watchBuf = 0; e.unroll = oldUnroll }()
	args := []Value{&Ptr{Obj: bufID}}
	ja := []any{map[string]any{"buf": "b"}}
	var pad, left *Term
	switch p.Family {
	case "ReadFixedString":
		args = append(args, CI(4))
		ja = append(ja, "4")
	case "ReadFixedStringTrimPadding":
		pad, left = C(32, '0'), e.freshVar("left", 0)
		args = append(args, CI(4), pad, left)
	case "ReadFixedStringList":
		args = append(args, CI(2))
		ja = append(ja, "2")
	case "ReadFixedStringListTrimPadding":
		pad, left = C(32, '0'), e.freshVar("left", 0)
		args = append(args, CI(2), pad, left)
	case "ReadObjectList":
		args = append(args, &FuncV{Fn: c.w.fn("codec.NewZzObj")})
		ja = append(ja, nil)
	}
	if p.Fn.Signature.Params().Len() != len(args) {
		panic(bindErr(fmt.Sprintf("%s: signature has %d parameters, driver built %d", p.Name, p.Fn.Signature.Params().Len(), len(args))))
	}
	replay := func(val func(*Term) uint64, j Judge) *ReplayReq {
		a := append([]any{}, ja...)
		if pad != nil {
			n := "4"
			if strings.Contains(p.Family, "List") {
				n = "2"
			}
			a = append(a, n, fmt.Sprint(val(pad)), val(left) == 1)
		}
		j.Step = 1
		return &ReplayReq{Steps: []map[string]any{step("op", "newbuf", "buf", "b", "hex", hexOf(evalBytes(t.S, val))), step("op", "prim", "fn", p.Name, "args", a)}, Judge: j}
	}
	e.pushCall(s, p.Fn, args, nil)
	for _, fs := range e.Run(s) {
		if fs.cut != "" && strings.HasPrefix(fs.cut, "unwind") {
			// a loop ran more often than there are input bytes + 2: it makes no progress
			c.Prove(fs, "loop-progress", False, func(val func(*Term) uint64) *Violation {
				return &Violation{Detail: p.Name + ": a read loop runs longer than the input (" + fs.cut + ")", Replay: replay(val, Judge{Kind: "abort"})}
			})
			continue
		}
		if c.PathProblem(fs, p.Name, func(val func(*Term) uint64, msg string) *Violation {
			return &Violation{Obligation: "no-panic", Detail: p.Name + " panics on arbitrary input: " + msg, Model: map[string]any{"input_hex": hexOf(evalBytes(t.S, val))}, Replay: replay(val, Judge{Kind: "panic"})}
		}) {
			continue
		}
		c.res.Obl++
		c.res.Dis++
		c.checkAllocs(fs, p.Name, t.S.Len, wantAlloc, wantNoPanic, replay)
	}
	c.Witness(s, "arbitrary input", func(val func(*Term) uint64) any {
		return map[string]any{"fn": p.Name, "input_hex": hexOf(evalBytes(t.S, val))}
	})
}

// lockLeak: a decode path that returns while still holding a lock (ghost lock state of the executor) makes every
// later writer of that lock - and, behind a waiting writer, every later reader - block for ever: a hang.
// Native confirmation: after the decode, every public Registry...Factory function of the module must return.
func (c *Ctx) lockLeak(ds *State, mc MsgCase, input func(val func(*Term) uint64) []byte) {
	for k, lv := range ds.locks {
		if lv == 0 {
			continue
		}
		k := k
		c.Prove(ds, "no-lock-held-at-return", False, func(val func(*Term) uint64) *Violation {
			st := append(decodeSteps(mc, input(val)), step("op", "lockprobe", "module", mc.Mod))
			return &Violation{Detail: "Decode returns while still holding " + k + ": later registrations and decodes block", Model: map[string]any{"input_hex": hexOf(input(val))},
				Replay: &ReplayReq{Steps: st, Judge: Judge{Kind: "hang"}}}
		})
	}
}

// decPrimLong: a list reader on a long input whose count field claims more elements than are present: K genuine
// elements (arbitrary bytes) follow an arbitrary count > K. Growth policies that trust the claimed count only
// after a first chunk of real elements (1024, 2048 ...) are out of reach of the 12/24-byte inputs.
func decPrimLong(c *Ctx, p primInst, K int, wantNoPanic, wantAlloc bool) {
	e := c.e()
	s := c.w.newState()
	pw := typeWidth(p.TArgs[0]) / 8
	elem := 2 // ZzObj / int16 / 2-byte fixed strings
	args0 := []any{}
	var extra []Value
	switch p.Family {
	case "ReadObjectList":
		extra = []Value{&FuncV{Fn: c.w.fn("codec.NewZzObj")}}
		args0 = append(args0, nil)
	case "ReadFixedStringList":
		extra = []Value{CI(2)}
		args0 = append(args0, "2")
	case "ReadBasicTypeList":
		elem = typeWidth(p.TArgs[1]) / 8
	default:
		return
	}
	if K >= 1<<uint(8*pw)-1 {
		return // the prefix cannot claim more than K elements
	}
	cnt := e.freshVar("count", 8*pw)
	s.pc = append(s.pc, Lt(C(cnt.W, uint64(K)), cnt, false))
	arr := ArrVar(e.freshName("long_in"))
	body := &Bytes{Len: CI(int64(K * elem))}
	body.At = func(i *Term) *Term { return Select(arr, i) }
	in := Concat2(VecBytes(intBytes(cnt, p.LE)), body)
	bufID := s.newObj(&Obj{Kind: kBuffer, B: in, R: CI(0)})
	e.watchBuf = bufID
	oldUnroll := e.unroll
	e.unroll = K + 8
	defer func() { e.watchBuf = 0; e.unroll = oldUnroll }()
	args := append([]Value{&Ptr{Obj: bufID}}, extra...)
	if p.Fn.Signature.Params().Len() != len(args) {
		panic(bindErr("signature of " + p.Name))
	}
	replay := func(val func(*Term) uint64, j Judge) *ReplayReq {
		j.Step = 1
		ja := append([]any{map[string]any{"buf": "b"}}, args0...)
		return &ReplayReq{Steps: []map[string]any{step("op", "newbuf", "buf", "b", "hex", hexOf(evalBytes(in, val))), step("op", "prim", "fn", p.Name, "args", ja)}, Judge: j}
	}
	e.pushCall(s, p.Fn, args, nil)
	for _, fs := range e.Run(s) {
		if fs.cut != "" && strings.HasPrefix(fs.cut, "unwind") {
			c.Prove(fs, "loop-progress", False, func(val func(*Term) uint64) *Violation {
				return &Violation{Detail: p.Name + ": a read loop runs longer than the input (" + fs.cut + ")", Replay: replay(val, Judge{Kind: "abort"})}
			})
			continue
		}
		if c.PathProblem(fs, p.Name, func(val func(*Term) uint64, msg string) *Violation {
			return &Violation{Obligation: "no-panic", Detail: p.Name + " panics on a long list with a hostile count: " + msg, Replay: replay(val, Judge{Kind: "panic"})}
		}) {
			continue
		}
		c.res.Obl++
		c.res.Dis++
		c.checkAllocs(fs, p.Name, in.Len, wantAlloc, wantNoPanic, replay)
	}
	c.Witness(s, "long input, hostile count", func(val func(*Term) uint64) any {
		return map[string]any{"fn": p.Name, "elements_present": K, "claimed_count": val(cnt)}
	})
}

func (c *Ctx) primLongItems(wantNoPanic, wantAlloc bool) []Item {
	var items []Item
	ks := []int{1030}
	if c.thorough() {
		ks = []int{130, 1030, 2060, 4100}
	}
	for _, p := range c.primInstances() {
		p := p
		switch p.Family {
		case "ReadObjectList", "ReadFixedStringList":
		case "ReadBasicTypeList":
			if p.TArgs[1] != "int16" {
				continue
			}
		default:
			continue
		}
		for _, K := range ks {
			K := K
			if K >= 1<<uint(typeWidth(p.TArgs[0]))-1 {
				continue
			}
			items = append(items, Item{ID: fmt.Sprintf("primlong:%s/present=%d", p.Name, K), Run: func(c *Ctx) { decPrimLong(c, p, K, wantNoPanic, wantAlloc) }})
		}
	}
	return items
}
