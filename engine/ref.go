package main

// Reference interpreter of the pinned schema (the oracle): encodes a symbolic value tree into the bytes
// the protocol prescribes, decodes fixed-layout images, and defines the checksum algorithms.

import "fmt"

type Region struct {
	Name       string
	Kind       string
	Start, End *Term
	Numeric    bool
	FieldIdx   int
}

type Ref struct {
	sc     *Schema
	g      *Gen
	Sum    func(alg string, frame *Bytes) *Term // checksum oracle (driver supplied)
	Nums   []Region                             // every multi-byte integer rendering, at any depth (absolute offsets)
	Leaves []Region                             // every primitive rendering, at any depth (absolute offsets)
	base   *Term
	path   string
}

func (r *Ref) leaf(name, kind string, start, end *Term) {
	b := r.base
	if b == nil {
		b = CI(0)
	}
	r.Leaves = append(r.Leaves, Region{Name: r.path + name, Kind: kind, Start: Add(b, start), End: Add(b, end)})
}

func (r *Ref) num(name string, start *Term, n int) {
	r.leaf(name, "num", start, Add(start, CI(int64(n))))
	if n < 2 {
		return
	}
	b := r.base
	if b == nil {
		b = CI(0)
	}
	r.Nums = append(r.Nums, Region{Name: r.path + name, Kind: "num", Start: Add(b, start), End: Add(b, Add(start, CI(int64(n)))), Numeric: true})
}

// sub: reference encoding of a nested value placed at offset off of the current output
func (r *Ref) sub(v *SVal, off *Term, name string) *Bytes {
	ob, op := r.base, r.path
	if ob == nil {
		ob = CI(0)
	}
	r.base, r.path = Add(ob, off), op+name+"."
	b, _ := r.Enc(v)
	r.base, r.path = ob, op
	return b
}

func intBytes(v *Term, little bool) []*Term { return scalarBytes(v, little) }

func prefixBytes(typ string, n *Term, little bool) []*Term {
	w := typeWidth(typ)
	return intBytes(Extract(w-1, 0, n), little)
}

func refFix(v *SVal, f *FieldSpec) *Bytes {
	N := f.Width
	pad := C(8, uint64(f.Pad))
	out := make([]*Term, N)
	L := v.S.Len
	for j := 0; j < N; j++ {
		if f.Left {
			// over-long (L >= N): first N bytes; else pad (N-L) then text
			k := Sub(CI(int64(j)), Sub(CI(int64(N)), L))
			long := Le(CI(int64(N)), L, true)
			out[j] = Ite(long, v.S.At(CI(int64(j))), Ite(Lt(k, CI(0), true), pad, v.S.At(k)))
		} else {
			out[j] = Ite(Lt(CI(int64(j)), L, true), v.S.At(CI(int64(j))), pad)
		}
	}
	return VecBytes(out)
}

// Enc returns the reference encoding of v and the byte regions of the top-level fields.
func (r *Ref) Enc(v *SVal) (*Bytes, []Region) {
	ts := r.sc.Mods[v.Mod].Types[v.Typ]
	little := ts.Little()
	out := EmptyBytes()
	var regs []Region
	frameStart := CI(0)
	var lenPos *Term
	var lenField *FieldSpec
	var bodyStart *Term
	for i := range ts.Fields {
		f := &ts.Fields[i]
		start := out.Len
		fv := v.F[i]
		numeric := false
		switch f.Kind {
		case "int", "float":
			r.num(f.Go, out.Len, typeWidth(f.Type)/8)
			out = Concat2(out, VecBytes(intBytes(fv.T, little)))
			numeric = true
		case "computed_len":
			lenPos, lenField = out.Len, f
			r.num(f.Go, out.Len, typeWidth(f.Type)/8)
			out = Concat2(out, VecBytes(intBytes(C(typeWidth(f.Type), 0), little)))
			numeric = true
		case "computed_sum":
			frame := SliceBytes(out, frameStart, out.Len)
			sum := r.Sum(f.Alg, frame)
			r.num(f.Go, out.Len, typeWidth(f.Type)/8)
			out = Concat2(out, VecBytes(intBytes(sum, little)))
			numeric = true
		case "fixstr":
			r.leaf(f.Go, "fixstr", out.Len, Add(out.Len, CI(int64(f.Width))))
			out = Concat2(out, refFix(fv, f))
		case "pstr":
			r.num(f.Go+"(len)", out.Len, typeWidth(f.Prefix)/8)
			out = Concat2(out, VecBytes(prefixBytes(f.Prefix, fv.S.Len, little)))
			r.leaf(f.Go+"(text)", "text", out.Len, Add(out.Len, fv.S.Len))
			out = Concat2(out, fv.S)
		case "list_basic", "list_fixstr", "list_pstr", "list_obj":
			r.num(f.Go+"(count)", out.Len, typeWidth(f.Count)/8)
			out = Concat2(out, VecBytes(prefixBytes(f.Count, CI(int64(len(fv.L))), little)))
			for j, el := range fv.L {
				switch f.Kind {
				case "list_basic":
					r.num(fmt.Sprintf("%s[%d]", f.Go, j), out.Len, typeWidth(f.Elem)/8)
					out = Concat2(out, VecBytes(intBytes(el.T, little)))
				case "list_fixstr":
					r.leaf(fmt.Sprintf("%s[%d]", f.Go, j), "fixstr", out.Len, Add(out.Len, CI(int64(f.Width))))
					out = Concat2(out, refFix(el, f))
				case "list_pstr":
					r.num(fmt.Sprintf("%s[%d](len)", f.Go, j), out.Len, typeWidth(f.Prefix)/8)
					out = Concat2(out, VecBytes(prefixBytes(f.Prefix, el.S.Len, little)))
					r.leaf(fmt.Sprintf("%s[%d](text)", f.Go, j), "text", out.Len, Add(out.Len, el.S.Len))
					out = Concat2(out, el.S)
				case "list_obj":
					out = Concat2(out, r.sub(el, out.Len, fmt.Sprintf("%s[%d]", f.Go, j)))
				}
			}
		case "nested":
			out = Concat2(out, r.sub(fv, out.Len, f.Go))
		case "body":
			bodyStart = out.Len
			if fv.K == 'o' {
				out = Concat2(out, r.sub(fv, out.Len, f.Go))
			}
			if lenPos != nil {
				n := Sub(out.Len, bodyStart)
				out = OverwriteBytes(out, lenPos, VecBytes(intBytes(Extract(typeWidth(lenField.Type)-1, 0, n), little)))
			}
		default:
			panic("ref enc kind " + f.Kind)
		}
		regs = append(regs, Region{Name: f.Go, Kind: f.Kind, Start: start, End: out.Len, Numeric: numeric, FieldIdx: i})
	}
	return out, regs
}

// Expected returns v with the computed fields replaced by their correct values (m° of the design).
func (r *Ref) Expected(v *SVal) *SVal {
	ts := r.sc.Mods[v.Mod].Types[v.Typ]
	hasComputed := false
	for _, f := range ts.Fields {
		if f.Kind == "computed_len" || f.Kind == "computed_sum" {
			hasComputed = true
		}
	}
	if !hasComputed {
		return v
	}
	enc, regs := r.Enc(v)
	little := ts.Little()
	c := *v
	c.F = append([]*SVal{}, v.F...)
	for _, rg := range regs {
		if rg.Kind == "computed_len" || rg.Kind == "computed_sum" {
			w := typeWidth(ts.Fields[rg.FieldIdx].Type) / 8
			bs := make([]*Term, w)
			for j := range bs {
				bs[j] = enc.At(Add(rg.Start, CI(int64(j))))
			}
			c.F[rg.FieldIdx] = &SVal{K: 'i', T: scalarFromBytes(bs, little)}
		}
	}
	return &c
}

// FixedSize returns the wire size of a type whose layout has no variable-length part (given the
// chosen body type for discriminated fields), or -1.
func (r *Ref) FixedSize(mod, tn string, bodyOf func(tab *TableSpec) string) int {
	ts := r.sc.Mods[mod].Types[tn]
	n := 0
	for i := range ts.Fields {
		f := &ts.Fields[i]
		switch f.Kind {
		case "int", "float", "computed_len", "computed_sum":
			n += typeWidth(f.Type) / 8
		case "fixstr":
			n += f.Width
		case "nested":
			k := r.FixedSize(mod, f.Type, bodyOf)
			if k < 0 {
				return -1
			}
			n += k
		case "body":
			bt := bodyOf(r.sc.Mods[mod].Tables[f.Table])
			if bt == "" {
				return -1
			}
			k := r.FixedSize(mod, bt, bodyOf)
			if k < 0 {
				return -1
			}
			n += k
		default:
			return -1
		}
	}
	return n
}

// trimmed: reference result of reading a fixed text field from its N wire bytes.
func refTrim(w []*Term, f *FieldSpec) *Bytes {
	N := len(w)
	pad := C(8, uint64(f.Pad))
	if !f.Left {
		L := CI(0)
		for j := 0; j < N; j++ {
			L = Ite(Eq(w[j], pad), L, CI(int64(j+1)))
		}
		return SliceBytes(VecBytes(w), CI(0), L)
	}
	K := CI(int64(N))
	for j := N - 1; j >= 0; j-- {
		K = Ite(Eq(w[j], pad), K, CI(int64(j)))
	}
	b := &Bytes{Len: Sub(CI(int64(N)), K)}
	vb := VecBytes(w)
	b.At = func(i *Term) *Term { return vb.At(Add(K, i)) }
	return b.Norm()
}

// Dec: reference decoding of a fixed-layout image starting at w[pos]; returns the value and the new position.
func (r *Ref) Dec(mod, tn string, w []*Term, pos int, keyBody func(tab *TableSpec, key *SVal) string) (*SVal, int) {
	ts := r.sc.Mods[mod].Types[tn]
	little := ts.Little()
	ov := &SVal{K: 'o', Mod: mod, Typ: tn, F: make([]*SVal, len(ts.Fields))}
	for i := range ts.Fields {
		f := &ts.Fields[i]
		switch f.Kind {
		case "int", "float", "computed_len", "computed_sum":
			n := typeWidth(f.Type) / 8
			ov.F[i] = &SVal{K: 'i', T: scalarFromBytes(w[pos:pos+n], little)}
			pos += n
		case "fixstr":
			ov.F[i] = &SVal{K: 's', S: refTrim(w[pos:pos+f.Width], f), SMax: f.Width}
			pos += f.Width
		case "nested":
			ov.F[i], pos = r.Dec(mod, f.Type, w, pos, keyBody)
		case "body":
			var key *SVal
			for j := range ts.Fields {
				if ts.Fields[j].Go == f.Key {
					key = ov.F[j]
				}
			}
			bt := keyBody(r.sc.Mods[mod].Tables[f.Table], key)
			ov.F[i], pos = r.Dec(mod, bt, w, pos, keyBody)
		default:
			panic(fmt.Sprintf("ref dec of variable-length kind %s", f.Kind))
		}
	}
	return ov, pos
}

// ---------------------------------------------------------------- reference checksums

// sum8: sum of all bytes modulo 256 (8-bit wrap-around), for concrete or bounded symbolic lengths.
func sum8(b *Bytes, maxLen int) *Term {
	b = b.Norm()
	acc := C(8, 0)
	if b.Vec != nil {
		for _, x := range b.Vec {
			acc = Add(acc, x)
		}
		return acc
	}
	for j := 0; j < maxLen; j++ {
		in := Lt(CI(int64(j)), b.Len, true)
		if in == False {
			break
		}
		acc = Add(acc, Ite(in, b.At(CI(int64(j))), C(8, 0)))
	}
	return acc
}

// Rocksoft-model CRC, MSB-first with reflection flags (the catalogue formulation).
func revBits(t *Term) *Term {
	bits := make([]*Term, t.W)
	for i := 0; i < t.W; i++ {
		bits[i] = Extract(i, i, t) // bit i becomes the i-th from the top
	}
	return Concat(bits...)
}

func crcRocksoft(width int, poly, init, xorout uint64, refin, refout bool, data []*Term) *Term {
	crc := C(width, init)
	top := width - 1
	for _, b := range data {
		x := b
		if refin {
			x = revBits(b)
		}
		crc = Bin("bvxor", crc, Concat(x, C(width-8, 0)))
		for i := 0; i < 8; i++ {
			msb := Eq(Extract(top, top, crc), C(1, 1))
			sh := Bin("bvshl", crc, C(width, 1))
			crc = Ite(msb, Bin("bvxor", sh, C(width, poly)), sh)
		}
	}
	if refout {
		crc = revBits(crc)
	}
	return Bin("bvxor", crc, C(width, xorout))
}

func crc16ModbusRef(data []*Term) *Term {
	return crcRocksoft(16, 0x8005, 0xFFFF, 0, true, true, data)
}
func crc32IEEERef(data []*Term) *Term {
	return crcRocksoft(32, 0x04C11DB7, 0xFFFFFFFF, 0xFFFFFFFF, true, true, data)
}
