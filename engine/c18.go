package main

// C18 - values too long for their length prefix are refused, never silently wrapped.

import (
	"fmt"
	"strings"
)

func prefixMax(t string) int64 { return int64(mask(typeWidth(t))) }

func init() {
	drivers["C18"] = &Driver{Prop: "C18", Level: "model_checking",
		Explain: "prefixed writers at the prefix boundary: loop-free text writers get a text of fully symbolic length (up to 2^33 for uint32, replayable bounds for uint8/uint16) and must return an error or have length <= max(prefix); at and just below the maximum the written prefix is the length and the reader returns the text; list writers run with max-1, max, max+1 elements (uint8 instantiations: 254..257 elements; uint16: 65534..65537 in the thorough tier): error beyond the maximum, faithful count and round-trip at it; the per-element prefix of string lists likewise; every message field with a length prefix is driven over its boundary through the message's real Encode, which must return the error",
		Assume:  []string{"standard-library contracts listed under trusted_base", "uint32-counted lists at the boundary (2^32 elements) are outside; uint32-prefixed text is decided symbolically but cannot be replayed natively (4 GiB)"},
		Bounds: func(tier string) map[string]any {
			if tier == "thorough" {
				return map[string]any{"text_length": "symbolic 0..2^33 (uint32), 0..70000 (uint16), 0..600 (uint8)", "list_lengths": "uint8: 254..257; uint16: 65534..65537", "message_fields": "every prefixed text field; uint16-counted lists with 65536 elements"}
			}
			return map[string]any{"text_length": "symbolic 0..2^33 (uint32), 0..70000 (uint16), 0..600 (uint8)", "list_lengths": "uint8: 254..257", "message_fields": "every prefixed text field"}
		},
		Items: func(c *Ctx) []Item {
			var items []Item
			for _, p := range c.primInstancesOpt(true) {
				p := p
				switch p.Family {
				case "WriteString":
					items = append(items, Item{ID: "text:" + p.Name, Run: func(c *Ctx) { c18text(c, p) }})
					if p.TArgs[0] != "ZzU8" { // (no reader is instantiated for the named prefix type)
						items = append(items, Item{ID: "text-at-max:" + p.Name, Run: func(c *Ctx) { c18textAtMax(c, p) }})
					}
				case "WriteBasicTypeList", "WriteStringList", "WriteFixedStringList", "WriteObjectList":
					if p.Family == "WriteObjectList" {
						for _, nb := range [][2]int{{1, 0}, {3, 1}, {3, 2}} {
							nb := nb
							items = append(items, Item{ID: fmt.Sprintf("objrefuse:%s/n=%d/bad=%d", p.Name, nb[0], nb[1]), Run: func(c *Ctx) { c18objRefuse(c, p, nb[0], nb[1]) }})
						}
					}
					// the count guard is shared, but element-type-specific fast paths may bypass it (seeded C18-f: a
					// []byte path): every element type behind 8-bit counts; uint8 and uint16 (thorough: also int8,
					// float64) behind wider counts
					if p.Family == "WriteBasicTypeList" && typeWidth(p.TArgs[0]) > 8 {
						switch p.TArgs[1] {
						case "uint8", "uint16":
						case "int8", "float64":
							if !c.thorough() {
								continue
							}
						default:
							continue
						}
					}
					if p.Family == "WriteStringList" && p.TArgs[1] != "uint8" {
						continue
					}
					if p.TArgs[0] == "uint32" {
						continue
					}
					mx := int(prefixMax(p.TArgs[0]))
					for _, n := range []int{mx - 1, mx, mx + 1, mx + 2} {
						n := n
						items = append(items, Item{ID: fmt.Sprintf("list:%s/len=%d", p.Name, n), Run: func(c *Ctx) { c18list(c, p, n) }})
					}
				}
			}
			// per-element prefix of string lists: every (count type, element prefix type) pair
			for _, p := range c.primInstances() {
				p := p
				if p.Family == "WriteStringList" && p.TArgs[1] != "uint32" {
					items = append(items, Item{ID: "elemtext:" + p.Name, Run: func(c *Ctx) { c18elemText(c, p) }})
				}
			}
			// message level
			for _, mod := range modules {
				ms := c.sc.Mods[mod]
				for _, tn := range ms.TypeNames() {
					for i, f := range ms.Types[tn].Fields {
						mod, tn, i, f := mod, tn, i, f
						switch f.Kind {
						case "pstr":
							items = append(items, Item{ID: fmt.Sprintf("msgtext:%s.%s.%s", mod, tn, f.Go), Run: func(c *Ctx) { c18msgText(c, mod, tn, i) }})
						case "list_basic", "list_fixstr", "list_pstr", "list_obj":
							if f.Count == "uint16" {
								items = append(items, Item{ID: fmt.Sprintf("msglist:%s.%s.%s", mod, tn, f.Go), Run: func(c *Ctx) { c18msgList(c, mod, tn, i) }})
							}
						}
					}
				}
			}
			return items
		}}
}

func textBound(prefix string) int {
	switch prefix {
	case "uint8":
		return 600
	case "uint16":
		return 70000
	}
	return 1 << 33
}

func bigTextJSON(t *SVal, val func(*Term) uint64) (any, bool) {
	n := val(t.S.Len)
	if n > 1<<20 {
		return nil, false
	}
	// content does not matter beyond what the model fixes: fill with the model's bytes for short texts, 'x' otherwise
	if n <= 4096 {
		return concText(t, val), true
	}
	return map[string]any{"$hex": strings.Repeat("78", int(n))}, true
}

func c18text(c *Ctx, p primInst) {
	e := c.e()
	s := c.w.newState()
	mx := prefixMax(p.TArgs[0])
	t := c.textArg(s, "s", textBound(p.TArgs[0]))
	bufID := s.newObj(&Obj{Kind: kBuffer, B: EmptyBytes(), R: CI(0)})
	e.pushCall(s, p.Fn, []Value{&Ptr{Obj: bufID}, &StringV{B: t.S}}, nil)
	for _, fs := range e.Run(s) {
		if c.PathProblem(fs, p.Name, nil) {
			continue
		}
		if !isNilErr(fs.ret) {
			// error path: must only happen beyond the maximum (at and below it the value must encode)
			c.Prove(fs, "error-only-beyond-max", Lt(CI(mx), t.S.Len, true), func(val func(*Term) uint64) *Violation {
				tj, _ := bigTextJSON(t, val)
				return &Violation{Detail: fmt.Sprintf("%s refuses a text of %d bytes although the prefix can represent it", p.Name, val(t.S.Len)),
					Replay: &ReplayReq{Steps: []map[string]any{step("op", "newbuf", "buf", "b", "hex", ""), step("op", "prim", "fn", p.Name, "args", []any{map[string]any{"buf": "b"}, tj})}, Judge: Judge{Kind: "err_nonnil", Step: 1}}}
			})
			continue
		}
		c.Witness(fs, "success path", func(val func(*Term) uint64) any { return map[string]any{"fn": p.Name, "length": val(t.S.Len)} })
		c.Prove(fs, "too-long-is-refused", Le(t.S.Len, CI(mx), true), func(val func(*Term) uint64) *Violation {
			n := val(t.S.Len)
			out := unread(fs.heap[bufID])
			v := &Violation{Detail: fmt.Sprintf("%s succeeds on a text of %d bytes (prefix maximum %d): prefix on the wire wraps", p.Name, n, mx),
				Model: map[string]any{"length": n, "prefix_bytes_hex": hexOf(evalBytes(SliceBytes(out, CI(0), CI(int64(typeWidth(p.TArgs[0])/8))), val))}}
			if tj, ok := bigTextJSON(t, val); ok {
				v.Replay = &ReplayReq{Steps: []map[string]any{step("op", "newbuf", "buf", "b", "hex", ""), step("op", "prim", "fn", p.Name, "args", []any{map[string]any{"buf": "b"}, tj})}, Judge: Judge{Kind: "err_nil", Step: 1}}
			}
			return v
		})
	}
}

// c18textAtMax: length in [max-1, max]: prefix equals the length, reader returns the text.
func c18textAtMax(c *Ctx, p primInst) {
	if p.TArgs[0] == "uint32" {
		return // cannot be built or replayed; the symbolic-length item covers the refusal side
	}
	e := c.e()
	s := c.w.newState()
	mx := prefixMax(p.TArgs[0])
	t := c.textArg(s, "s", int(mx))
	s.pc = append(s.pc, Le(CI(mx-1), t.S.Len, true))
	bufID := s.newObj(&Obj{Kind: kBuffer, B: EmptyBytes(), R: CI(0)})
	rname := "codec.Read" + strings.TrimPrefix(p.Name, "Write")
	rfn := c.w.fn(rname)
	if rfn == nil {
		c.Inconclusive("reader " + rname + " not found")
		return
	}
	steps := func(val func(*Term) uint64) []map[string]any {
		tj, _ := bigTextJSON(t, val)
		return []map[string]any{step("op", "newbuf", "buf", "b", "hex", ""), step("op", "prim", "fn", p.Name, "args", []any{map[string]any{"buf": "b"}, tj}),
			step("op", "prim", "fn", strings.TrimPrefix(rname, "codec."), "args", []any{map[string]any{"buf": "b"}})}
	}
	e.pushCall(s, p.Fn, []Value{&Ptr{Obj: bufID}, &StringV{B: t.S}}, nil)
	for _, fs := range e.Run(s) {
		if c.PathProblem(fs, p.Name, nil) {
			continue
		}
		if !isNilErr(fs.ret) {
			c.Prove(fs, "encodes-at-max", False, func(val func(*Term) uint64) *Violation {
				return &Violation{Detail: fmt.Sprintf("%s refuses a text of %d bytes (maximum %d)", p.Name, val(t.S.Len), mx), Replay: &ReplayReq{Steps: steps(val)[:2], Judge: Judge{Kind: "err_nonnil", Step: 1}}}
			})
			continue
		}
		e.pushCall(fs, rfn, []Value{&Ptr{Obj: bufID}}, nil)
		for _, rs := range e.Run(fs) {
			if c.PathProblem(rs, rname, nil) {
				continue
			}
			rv := rs.ret.(TupleV)
			if !isNilErr(rv[1]) {
				c.Prove(rs, "reads-back-at-max", False, func(val func(*Term) uint64) *Violation {
					return &Violation{Detail: "reader rejects the encoding of a maximal-length text", Replay: &ReplayReq{Steps: steps(val), Judge: Judge{Kind: "err_nonnil", Step: 2}}}
				})
				continue
			}
			got := rv[0].(*StringV).B
			idx := e.boundedVar(rs, "idx", 0, mx)
			mk := func(val func(*Term) uint64) *Violation {
				tj, _ := bigTextJSON(t, val)
				return &Violation{Detail: "text at the prefix maximum does not round-trip", Replay: &ReplayReq{Steps: steps(val), Judge: Judge{Kind: "ret_ne", Step: 2, ExpectRet: tj}}}
			}
			c.Prove(rs, "roundtrip-length", Eq(got.Len, t.S.Len), mk)
			c.Prove(rs, "roundtrip-content", Implies(Lt(idx, t.S.Len, true), Eq(got.At(idx), t.S.At(idx))), mk)
			c.Prove(rs, "consumes-all", Eq(unreadLen(rs.heap[bufID]), CI(0)), mk)
			c.Witness(rs, "at max", nil)
		}
	}
}

func c18list(c *Ctx, p primInst, n int) {
	e := c.e()
	mx := int(prefixMax(p.TArgs[0]))
	pad := C(32, ' ')
	h := c.buildWriterShared(p, n)
	if h == nil {
		return
	}
	_ = pad
	steps := func(val func(*Term) uint64) []map[string]any {
		return []map[string]any{step("op", "newbuf", "buf", "b", "hex", ""), step("op", "prim", "fn", p.Name, "args", h.jargs(val))}
	}
	old := e.maxPaths
	defer func() { e.maxPaths = old }()
	e.pushCall(h.s, p.Fn, h.args, nil)
	for _, fs := range e.Run(h.s) {
		if c.PathProblem(fs, p.Name, func(val func(*Term) uint64, msg string) *Violation {
			return &Violation{Obligation: "no-panic", Detail: p.Name + " panics: " + msg, Replay: &ReplayReq{Steps: steps(val), Judge: Judge{Kind: "panic"}}}
		}) {
			continue
		}
		if n > mx {
			if isNilErr(fs.ret) {
				c.Prove(fs, "too-long-is-refused", False, func(val func(*Term) uint64) *Violation {
					out := unread(fs.heap[h.bufID])
					return &Violation{Detail: fmt.Sprintf("%s succeeds on %d elements (count maximum %d): count on the wire is %s", p.Name, n, mx, hexOf(evalBytes(SliceBytes(out, CI(0), CI(int64(typeWidth(p.TArgs[0])/8))), val))),
						Replay: &ReplayReq{Steps: steps(val), Judge: Judge{Kind: "err_nil", Step: 1}}}
				})
			} else {
				c.res.Obl++
				c.res.Dis++
			}
			continue
		}
		if !isNilErr(fs.ret) {
			c.Prove(fs, "encodes-at-max", False, func(val func(*Term) uint64) *Violation {
				return &Violation{Detail: fmt.Sprintf("%s refuses %d elements (maximum %d)", p.Name, n, mx), Replay: &ReplayReq{Steps: steps(val), Judge: Judge{Kind: "err_nonnil", Step: 1}}}
			})
			continue
		}
		out := unread(fs.heap[h.bufID])
		cb := prefixBytes(p.TArgs[0], CI(int64(n)), p.LE)
		var cs []*Term
		for j := range cb {
			cs = append(cs, Eq(out.At(CI(int64(j))), cb[j]))
		}
		c.Prove(fs, "faithful-count", And(cs...), func(val func(*Term) uint64) *Violation {
			return &Violation{Detail: fmt.Sprintf("%s writes a count different from %d", p.Name, n), Replay: &ReplayReq{Steps: steps(val), Judge: Judge{Kind: "prefix_ne", Step: 1, ExpectHex: hexOf(evalTerms(cb, val))}}}
		})
		c.Witness(fs, "list at boundary", func(val func(*Term) uint64) any {
			return map[string]any{"fn": p.Name, "elements": n, "bytes": val(out.Len)}
		})
	}
}

// buildWriterShared: n elements that all share one symbolic element value (the count is what matters).
func (c *Ctx) buildWriterShared(p primInst, n int) *primHarness {
	e := c.e()
	s := c.w.newState()
	h := &primHarness{c: c, p: p, s: s}
	h.bufID = s.newObj(&Obj{Kind: kBuffer, B: EmptyBytes(), R: CI(0)})
	bufp := &Ptr{Obj: h.bufID}
	nT := CI(int64(n))
	switch p.Family {
	case "WriteBasicTypeList":
		v := e.freshVar("el", typeWidth(p.TArgs[1]))
		o := &Obj{Kind: kElems}
		for i := 0; i < n; i++ {
			o.E = append(o.E, v)
		}
		h.args = []Value{bufp, &SliceV{Obj: s.newObj(o), Off: CI(0), Len: nT, Cap: nT}}
		h.jargs = func(val func(*Term) uint64) []any {
			l := make([]any, n)
			for i := range l {
				l[i] = fmt.Sprint(val(v))
			}
			return []any{map[string]any{"buf": "b"}, l}
		}
	case "WriteStringList", "WriteFixedStringList":
		t := c.textArg(s, "s", 2)
		o := &Obj{Kind: kElems}
		for i := 0; i < n; i++ {
			o.E = append(o.E, &StringV{B: t.S})
		}
		h.args = []Value{bufp, &SliceV{Obj: s.newObj(o), Off: CI(0), Len: nT, Cap: nT}}
		if p.Family == "WriteFixedStringList" {
			h.args = append(h.args, CI(2))
		}
		h.jargs = func(val func(*Term) uint64) []any {
			l := make([]any, n)
			for i := range l {
				l[i] = concText(t, val)
			}
			a := []any{map[string]any{"buf": "b"}, l}
			if p.Family == "WriteFixedStringList" {
				a = append(a, "2")
			}
			return a
		}
	case "WriteObjectList":
		v := e.freshVar("obj", 16)
		s.pc = append(s.pc, Not(Eq(v, C(16, 0xFFFF)))) // (the value at which the test element refuses to encode)
		id := s.newObj(&Obj{Kind: kCell, Val: &StructV{F: []Value{v}}})
		o := &Obj{Kind: kElems}
		for i := 0; i < n; i++ {
			o.E = append(o.E, &Ptr{Obj: id})
		}
		h.args = []Value{bufp, &SliceV{Obj: s.newObj(o), Off: CI(0), Len: nT, Cap: nT}}
		h.jargs = func(val func(*Term) uint64) []any {
			l := make([]any, n)
			for i := range l {
				l[i] = map[string]any{"V": fmt.Sprint(val(v))}
			}
			return []any{map[string]any{"buf": "b"}, l}
		}
	default:
		return nil
	}
	if p.Fn.Signature.Params().Len() != len(h.args) {
		panic(bindErr(fmt.Sprintf("%s: signature has %d parameters, driver built %d", p.Name, p.Fn.Signature.Params().Len(), len(h.args))))
	}
	return h
}

// c18elemText: per-element length prefix K of WriteStringList[T,K].
func c18elemText(c *Ctx, p primInst) {
	e := c.e()
	s := c.w.newState()
	K := p.TArgs[1]
	mx := prefixMax(K)
	t := c.textArg(s, "s", textBound(K))
	bufID := s.newObj(&Obj{Kind: kBuffer, B: EmptyBytes(), R: CI(0)})
	o := &Obj{Kind: kElems, E: []Value{&StringV{B: t.S}}}
	args := []Value{&Ptr{Obj: bufID}, &SliceV{Obj: s.newObj(o), Off: CI(0), Len: CI(1), Cap: CI(1)}}
	e.pushCall(s, p.Fn, args, nil)
	for _, fs := range e.Run(s) {
		if c.PathProblem(fs, p.Name, nil) {
			continue
		}
		if !isNilErr(fs.ret) {
			c.Prove(fs, "error-only-beyond-max", Lt(CI(mx), t.S.Len, true), func(val func(*Term) uint64) *Violation {
				v := &Violation{Detail: fmt.Sprintf("%s refuses an element of %d bytes although its prefix %s can represent it", p.Name, val(t.S.Len), K)}
				if tj, ok := bigTextJSON(t, val); ok {
					v.Replay = &ReplayReq{Steps: []map[string]any{step("op", "newbuf", "buf", "b", "hex", ""), step("op", "prim", "fn", p.Name, "args", []any{map[string]any{"buf": "b"}, []any{tj}})}, Judge: Judge{Kind: "err_nonnil", Step: 1}}
				}
				return v
			})
			continue
		}
		c.Witness(fs, "success path", nil)
		c.Prove(fs, "too-long-element-is-refused", Le(t.S.Len, CI(mx), true), func(val func(*Term) uint64) *Violation {
			v := &Violation{Detail: fmt.Sprintf("%s succeeds on an element of %d bytes (element prefix maximum %d)", p.Name, val(t.S.Len), mx)}
			if tj, ok := bigTextJSON(t, val); ok {
				v.Replay = &ReplayReq{Steps: []map[string]any{step("op", "newbuf", "buf", "b", "hex", ""), step("op", "prim", "fn", p.Name, "args", []any{map[string]any{"buf": "b"}, []any{tj}})}, Judge: Judge{Kind: "err_nil", Step: 1}}
			}
			return v
		})
	}
}

// c18msgText: the message's real Encode with one prefixed text field of symbolic length over the boundary.
func c18msgText(c *Ctx, mod, tn string, fi int) {
	ms := c.sc.Mods[mod]
	ts := ms.Types[tn]
	f := ts.Fields[fi]
	mc := MsgCase{Mod: mod, Typ: tn, Key: -1}
	if bf := ts.BodyField(); bf != nil {
		mc.Key = 0
	}
	h := c.newHarness(mc, "canon", 0)
	e := c.e()
	s := h.s
	mx := prefixMax(f.Prefix)
	big := h.g.symText(s, "big", textBound(f.Prefix))
	h.m.F[fi] = big
	h.mPtr = h.g.MaterializePtr(s, h.m)
	e.pushCall(s, h.enc, []Value{h.mPtr, &Ptr{Obj: h.bufID}}, nil)
	for _, fs := range e.Run(s) {
		if c.PathProblem(fs, "Encode", nil) {
			continue
		}
		if !encOK(h, fs) {
			c.res.Obl++
			c.res.Dis++
			continue
		}
		c.Witness(fs, "success path", nil)
		c.Prove(fs, "too-long-field-is-refused", Le(big.S.Len, CI(mx), true), func(val func(*Term) uint64) *Violation {
			n := val(big.S.Len)
			v := &Violation{Detail: fmt.Sprintf("%s.%s.Encode succeeds with %s of %d bytes (prefix %s, maximum %d)", mod, tn, f.Go, n, f.Prefix, mx), Model: map[string]any{"length": n}}
			if n <= 1<<20 {
				val2 := val
				mv := h.g.Concretize(h.m, val2).(map[string]any)
				mv[f.Go] = map[string]any{"$hex": strings.Repeat("78", int(n))}
				v.Replay = &ReplayReq{Steps: []map[string]any{step("op", "newbuf", "buf", "b", "hex", ""),
					step("op", "newmsg", "msg", "m", "module", mod, "type", tn, "value", mv), step("op", "encode", "msg", "m", "buf", "b")}, Judge: Judge{Kind: "err_nil", Step: 2}}
			}
			return v
		})
	}
}

// c18msgList: the message's real Encode with 65536 elements behind a uint16 count (thorough tier).
func c18msgList(c *Ctx, mod, tn string, fi int) {
	ms := c.sc.Mods[mod]
	ts := ms.Types[tn]
	f := ts.Fields[fi]
	mc := MsgCase{Mod: mod, Typ: tn, Key: -1}
	if bf := ts.BodyField(); bf != nil {
		mc.Key = 0
	}
	h := c.newHarness(mc, "canon", 0)
	e := c.e()
	s := h.s
	n := int(prefixMax(f.Count)) + 1
	// one shared element value
	g := h.g
	g.ListLen = func(path string, ff *FieldSpec) int { return 1 }
	one := g.Object(s, mod, tn, "")
	el := one.F[fi].L[0]
	lv := &SVal{K: 'l'}
	for i := 0; i < n; i++ {
		lv.L = append(lv.L, el)
	}
	h.m.F[fi] = lv
	h.mPtr = g.MaterializePtr(s, h.m)
	e.pushCall(s, h.enc, []Value{h.mPtr, &Ptr{Obj: h.bufID}}, nil)
	for _, fs := range e.Run(s) {
		if c.PathProblem(fs, "Encode", nil) {
			continue
		}
		if !encOK(h, fs) {
			c.res.Obl++
			c.res.Dis++
			c.res.Witness++
			continue
		}
		c.Prove(fs, "too-long-list-is-refused", False, func(val func(*Term) uint64) *Violation {
			mv := h.g.Concretize(h.m, val)
			return &Violation{Detail: fmt.Sprintf("%s.%s.Encode succeeds with %d elements in %s (count %s)", mod, tn, n, f.Go, f.Count),
				Replay: &ReplayReq{Steps: []map[string]any{step("op", "newbuf", "buf", "b", "hex", ""),
					step("op", "newmsg", "msg", "m", "module", mod, "type", tn, "value", mv), step("op", "encode", "msg", "m", "buf", "b")}, Judge: Judge{Kind: "err_nil", Step: 2}}}
		})
	}
}

// c18objRefuse: an element of an object list whose own Encode returns an error (in the messages: an element with
// an over-long list or text one level down) must make the list writer return an error - a swallowed element error
// is a truncated element followed by the rest, which decodes as something else.
func c18objRefuse(c *Ctx, p primInst, n, bad int) {
	e := c.e()
	s := c.w.newState()
	bufID := s.newObj(&Obj{Kind: kBuffer, B: EmptyBytes(), R: CI(0)})
	o := &Obj{Kind: kElems}
	var vs []*Term
	for i := 0; i < n; i++ {
		v := e.freshVar("obj", 16)
		if i == bad {
			s.pc = append(s.pc, Eq(v, C(16, 0xFFFF)))
		} else {
			s.pc = append(s.pc, Not(Eq(v, C(16, 0xFFFF))))
		}
		vs = append(vs, v)
		o.E = append(o.E, &Ptr{Obj: s.newObj(&Obj{Kind: kCell, Val: &StructV{F: []Value{v}}})})
	}
	args := []Value{&Ptr{Obj: bufID}, &SliceV{Obj: s.newObj(o), Off: CI(0), Len: CI(int64(n)), Cap: CI(int64(n))}}
	steps := func(val func(*Term) uint64) []map[string]any {
		l := []any{}
		for _, v := range vs {
			l = append(l, map[string]any{"V": fmt.Sprint(val(v))})
		}
		return []map[string]any{step("op", "newbuf", "buf", "b", "hex", ""), step("op", "prim", "fn", p.Name, "args", []any{map[string]any{"buf": "b"}, l})}
	}
	if p.Fn.Signature.Params().Len() != len(args) {
		panic(bindErr("signature of " + p.Name))
	}
	e.pushCall(s, p.Fn, args, nil)
	for _, fs := range e.Run(s) {
		if c.PathProblem(fs, p.Name, func(val func(*Term) uint64, msg string) *Violation {
			return &Violation{Obligation: "no-panic", Detail: p.Name + " panics: " + msg, Replay: &ReplayReq{Steps: steps(val), Judge: Judge{Kind: "panic"}}}
		}) {
			continue
		}
		if isNilErr(fs.ret) {
			c.Prove(fs, "element-error-is-returned", False, func(val func(*Term) uint64) *Violation {
				return &Violation{Detail: fmt.Sprintf("%s returns nil although element %d of %d refused to encode", p.Name, bad, n), Replay: &ReplayReq{Steps: steps(val), Judge: Judge{Kind: "err_nil", Step: 1}}}
			})
			continue
		}
		c.res.Obl++
		c.res.Dis++
	}
	c.Witness(s, "refusing element", func(val func(*Term) uint64) any { return map[string]any{"fn": p.Name, "n": n, "refusing_element": bad} })
}
