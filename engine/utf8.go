package main

// Exact model of unicode/utf8's decoding of one rune at a position (Go's first[]/acceptRanges tables written
// out as byte-range conditions), and the counting/validity functions built on it. Used as intrinsics because
// the library versions range over strings and index package-level tables.

func byteIn(b *Term, lo, hi uint64) *Term {
	return And(Le(C(8, lo), b, false), Le(b, C(8, hi), false))
}

// utf8At: width (1..4 as a 64-bit term) and validity of the encoding that starts at index i of d, where avail(k) says
// whether byte i+k exists.
func utf8At(at func(k int) *Term, avail func(k int) *Term) (width *Term, valid *Term) {
	b0, b1, b2, b3 := at(0), at(1), at(2), at(3)
	cont := func(b *Term) *Term { return byteIn(b, 0x80, 0xBF) }
	ascii := Lt(b0, C(8, 0x80), false)
	two := And(byteIn(b0, 0xC2, 0xDF), avail(1), cont(b1))
	b1for3 := Ite(Eq(b0, C(8, 0xE0)), byteIn(b1, 0xA0, 0xBF), Ite(Eq(b0, C(8, 0xED)), byteIn(b1, 0x80, 0x9F), cont(b1)))
	three := And(byteIn(b0, 0xE0, 0xEF), avail(2), b1for3, cont(b2))
	b1for4 := Ite(Eq(b0, C(8, 0xF0)), byteIn(b1, 0x90, 0xBF), Ite(Eq(b0, C(8, 0xF4)), byteIn(b1, 0x80, 0x8F), cont(b1)))
	four := And(byteIn(b0, 0xF0, 0xF4), avail(3), b1for4, cont(b2), cont(b3))
	width = Ite(two, CI(2), Ite(three, CI(3), Ite(four, CI(4), CI(1))))
	valid = Or(ascii, two, three, four)
	return
}

const utf8MaxModel = 160

// utf8Scan: rune count and validity of the whole sequence d (length bounded by utf8MaxModel), by a forward pass:
// start[j] = some rune starts at byte j.
func utf8Scan(d *Bytes) (count *Term, valid *Term, ok bool) {
	d = d.Norm()
	n := 0
	if d.Len.IsConst() {
		n = int(d.Len.Val)
	} else if ub, has := ubOf(d.Len); has && ub <= utf8MaxModel {
		n = int(ub)
	} else {
		return nil, nil, false
	}
	if n > utf8MaxModel {
		return nil, nil, false
	}
	start := make([]*Term, n+5)
	for i := range start {
		start[i] = False
	}
	start[0] = True
	count = CI(0)
	valid = True
	for i := 0; i < n; i++ {
		i := i
		inside := Lt(CI(int64(i)), d.Len, true)
		here := And(start[i], inside)
		if here == False {
			continue
		}
		w, v := utf8At(func(k int) *Term { return d.At(CI(int64(i + k))) }, func(k int) *Term { return Lt(CI(int64(i+k)), d.Len, true) })
		count = Add(count, Ite(here, CI(1), CI(0)))
		valid = And(valid, Or(Not(here), v))
		for k := 1; k <= 4; k++ {
			start[i+k] = Or(start[i+k], And(here, Eq(w, CI(int64(k)))))
		}
	}
	return count, valid, true
}

// utf8First: DecodeRune on the first bytes of d: (rune, width); empty -> (RuneError, 0); invalid -> (RuneError, 1).
func utf8First(d *Bytes) (r *Term, width *Term) {
	d = d.Norm()
	at := func(k int) *Term { return d.At(CI(int64(k))) }
	avail := func(k int) *Term { return Lt(CI(int64(k)), d.Len, true) }
	w, v := utf8At(at, avail)
	z := func(b *Term, mask uint64) *Term { return ZExt(Bin("bvand", b, C(8, mask)), 32) }
	shl := func(t *Term, k uint64) *Term { return Bin("bvshl", t, C(32, k)) }
	or := func(a, b *Term) *Term { return Bin("bvor", a, b) }
	r1 := ZExt(at(0), 32)
	r2 := or(shl(z(at(0), 0x1F), 6), z(at(1), 0x3F))
	r3 := or(or(shl(z(at(0), 0x0F), 12), shl(z(at(1), 0x3F), 6)), z(at(2), 0x3F))
	r4 := or(or(shl(z(at(0), 0x07), 18), shl(z(at(1), 0x3F), 12)), or(shl(z(at(2), 0x3F), 6), z(at(3), 0x3F)))
	rr := Ite(Eq(w, CI(1)), r1, Ite(Eq(w, CI(2)), r2, Ite(Eq(w, CI(3)), r3, r4)))
	empty := Eq(d.Len, CI(0))
	r = Ite(empty, C(32, 0xFFFD), Ite(v, rr, C(32, 0xFFFD)))
	width = Ite(empty, CI(0), w)
	return
}

// utf8Cut: the byte offset at which the first p runes of d end (len(d) when d has at most p runes) and the rune
// count of d, counting as `range` over a string does (an invalid byte is one rune of width 1).
func utf8Cut(d *Bytes, p int) (off *Term, count *Term, ok bool) {
	d = d.Norm()
	n := 0
	if d.Len.IsConst() {
		n = int(d.Len.Val)
	} else if ub, has := ubOf(d.Len); has && ub <= utf8MaxModel {
		n = int(ub)
	} else {
		return nil, nil, false
	}
	start := make([]*Term, n+5)
	for i := range start {
		start[i] = False
	}
	start[0] = True
	before := make([]*Term, n+1) // runes that start before position i
	count = CI(0)
	heres := make([]*Term, n)
	for i := 0; i < n; i++ {
		i := i
		before[i] = count
		inside := Lt(CI(int64(i)), d.Len, true)
		here := And(start[i], inside)
		heres[i] = here
		if here == False {
			continue
		}
		w, _ := utf8At(func(k int) *Term { return d.At(CI(int64(i + k))) }, func(k int) *Term { return Lt(CI(int64(i+k)), d.Len, true) })
		count = Add(count, Ite(here, CI(1), CI(0)))
		for k := 1; k <= 4; k++ {
			start[i+k] = Or(start[i+k], And(here, Eq(w, CI(int64(k)))))
		}
	}
	off = d.Len
	for i := n - 1; i >= 0; i-- {
		if heres[i] == False {
			continue
		}
		off = Ite(And(heres[i], Eq(before[i], CI(int64(p)))), CI(int64(i)), off)
	}
	return off, count, true
}
