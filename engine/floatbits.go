package main

import "math"

func float32bits(f float32) uint32 { return math.Float32bits(f) }
func float64bits(f float64) uint64 { return math.Float64bits(f) }
