package main

// C12 - discriminators pick the pinned body type both ways; unknown ones are errors.

import (
	"fmt"
	"go/types"
	"sort"
)

func init() {
	drivers["C12"] = &Driver{Prop: "C12", Level: "model_checking",
		Explain: "(a) the real New...MessageBy... of each of the 18 tables is executed on every pinned key: the dynamic type must be the pinned one; (b) on a symbolic key constrained to differ from every pinned key (uint16/uint32: the whole range; text: any string up to 4 bytes) every feasible path must return (nil, error) - an extra or mistyped registration shows up as a feasible non-error path whose model is the key; (c) the decode side per key is exercised by C01/C02; (d) Encode with the body/extension left out (BSE frame and the 13 extended messages): registered key -> the pinned type is materialised and the bytes equal the reference encoding with a zero body; unregistered symbolic key -> error, no panic",
		Assume:  []string{"pinned tables under /verif/schema", "factory maps are those built by the tree's own init functions (executed concretely by the engine)", "standard-library contracts listed under trusted_base"},
		Bounds: func(tier string) map[string]any {
			return map[string]any{"tables": 18, "registered_keys": 226, "unregistered_integer_keys": "full 16/32-bit range (symbolic)", "unregistered_text_keys": "length 0..4, any bytes (symbolic)"}
		},
		Items: func(c *Ctx) []Item {
			var items []Item
			for _, mod := range modules {
				ms := c.sc.Mods[mod]
				for _, tn := range ms.TableNames() {
					mod, tab := mod, ms.Tables[tn]
					items = append(items, Item{ID: fmt.Sprintf("table:%s.%s/registered", mod, tab.Name), Run: func(c *Ctx) { c12registered(c, mod, tab) }})
					items = append(items, Item{ID: fmt.Sprintf("table:%s.%s/unregistered", mod, tab.Name), Run: func(c *Ctx) { c12unregistered(c, mod, tab) }})
					// encode with missing body where the encoder fills it in
					owner := ms.Types[tab.Owner]
					if bf := owner.BodyField(); bf != nil && bf.Fill {
						for k := range tab.Entries {
							k := k
							items = append(items, Item{ID: fmt.Sprintf("fill:%s.%s/key=%d", mod, tab.Owner, k), Run: func(c *Ctx) { c12fill(c, mod, tab, k) }})
						}
						items = append(items, Item{ID: fmt.Sprintf("fill:%s.%s/unregistered", mod, tab.Owner), Run: func(c *Ctx) { c12fillUnknown(c, mod, tab) }})
					}
				}
			}
			return items
		}}
}

func keyValue(c *Ctx, k any, kt string) (Value, any) {
	switch kv := k.(type) {
	case string:
		return &StringV{B: ConstBytes(kv)}, map[string]any{"$hex": hexOf([]byte(kv))}
	case float64:
		return C(typeWidth(kt), uint64(kv)), fmt.Sprint(uint64(kv))
	}
	panic("key kind")
}

func dynTypeName(v Value) string {
	iv, ok := v.(*IfaceV)
	if !ok || iv.T == nil {
		return ""
	}
	if p, ok := iv.T.(*types.Pointer); ok {
		if n, ok := p.Elem().(*types.Named); ok {
			return n.Obj().Name()
		}
	}
	return iv.T.String()
}

func c12registered(c *Ctx, mod string, tab *TableSpec) {
	e := c.e()
	fn := c.w.pkgs[mod].Func(tab.NewFn)
	if fn == nil {
		c.Inconclusive("function " + tab.NewFn + " not found")
		return
	}
	for _, en := range tab.Entries {
		s := c.w.newState()
		kv, kj := keyValue(c, en[0], tab.KeyType)
		want := en[1].(string)
		e.pushCall(s, fn, []Value{kv}, nil)
		steps := []map[string]any{step("op", "factory", "module", mod, "fn", tab.NewFn, "args", []any{kj})}
		for _, fs := range e.Run(s) {
			if c.PathProblem(fs, tab.NewFn, func(val func(*Term) uint64, msg string) *Violation {
				return &Violation{Obligation: "no-panic", Detail: tab.NewFn + " panics: " + msg, Replay: &ReplayReq{Steps: steps, Judge: Judge{Kind: "panic"}}}
			}) {
				continue
			}
			rv := fs.ret.(TupleV)
			got := dynTypeName(rv[0])
			ok := isNilErr(rv[1]) && got == want
			c.Prove(fs, fmt.Sprintf("key=%s", keyString(en[0])), B(ok), func(val func(*Term) uint64) *Violation {
				return &Violation{Detail: fmt.Sprintf("%s(%s) yields %q (error=%v), pinned type is %s", tab.NewFn, keyString(en[0]), got, !isNilErr(rv[1]), want),
					Replay: &ReplayReq{Steps: steps, Judge: Judge{Kind: "ret_ne", Step: 0, ExpectRet: want}}}
			})
			if !ok {
				// B(false) is decided without the solver: record the violation directly
			}
			c.res.Witness++
		}
	}
	c.res.Sample = map[string]any{"table": tab.Name, "keys": len(tab.Entries)}
}

func c12unregistered(c *Ctx, mod string, tab *TableSpec) {
	e := c.e()
	fn := c.w.pkgs[mod].Func(tab.NewFn)
	if fn == nil {
		c.Inconclusive("function " + tab.NewFn + " not found")
		return
	}
	s := c.w.newState()
	var kv Value
	var kj func(val func(*Term) uint64) any
	if tab.KeyType == "string" {
		g := &Gen{w: c.w, sc: c.sc}
		t := g.symText(s, "key", 4)
		kv = &StringV{B: t.S}
		kj = func(val func(*Term) uint64) any { return concText(t, val) }
		for _, en := range tab.Entries {
			s.pc = append(s.pc, Not(strEqTerm(t.S, ConstBytes(en[0].(string)))))
		}
	} else {
		k := e.freshVar("key", typeWidth(tab.KeyType))
		kv = k
		kj = func(val func(*Term) uint64) any { return fmt.Sprint(val(k)) }
		for _, en := range tab.Entries {
			s.pc = append(s.pc, Not(Eq(k, C(k.W, uint64(en[0].(float64))))))
		}
	}
	c.Witness(s, "an unregistered key exists", func(val func(*Term) uint64) any {
		return map[string]any{"table": tab.Name, "unregistered_key": kj(val)}
	})
	steps := func(val func(*Term) uint64) []map[string]any {
		return []map[string]any{step("op", "factory", "module", mod, "fn", tab.NewFn, "args", []any{kj(val)})}
	}
	e.pushCall(s, fn, []Value{kv}, nil)
	for _, fs := range e.Run(s) {
		if c.PathProblem(fs, tab.NewFn, func(val func(*Term) uint64, msg string) *Violation {
			return &Violation{Obligation: "no-panic", Detail: tab.NewFn + " panics on an unregistered key: " + msg, Replay: &ReplayReq{Steps: steps(val), Judge: Judge{Kind: "panic"}}}
		}) {
			continue
		}
		rv := fs.ret.(TupleV)
		if isNilErr(rv[1]) || dynTypeName(rv[0]) != "" {
			got := dynTypeName(rv[0])
			c.Prove(fs, "unregistered-key-is-an-error", False, func(val func(*Term) uint64) *Violation {
				return &Violation{Detail: fmt.Sprintf("%s accepts the key %v that the pinned table does not contain (returns %q)", tab.NewFn, kj(val), got),
					Model: map[string]any{"key": kj(val)}, Replay: &ReplayReq{Steps: steps(val), Judge: Judge{Kind: "err_nil", Step: 0}}}
			})
			continue
		}
		c.res.Obl++
		c.res.Dis++
		// the same key once more, in the state the first look-up left behind (memo of the last row, negative cache)
		twice := func(val func(*Term) uint64) []map[string]any { return append(steps(val), steps(val)...) }
		fs.frames = nil
		e.pushCall(fs, fn, []Value{kv}, nil)
		for _, fs2 := range e.Run(fs) {
			if c.PathProblem(fs2, tab.NewFn+" (second look-up)", func(val func(*Term) uint64, msg string) *Violation {
				return &Violation{Obligation: "second-lookup-no-panic", Detail: tab.NewFn + " panics when the same unregistered key is looked up again: " + msg, Model: map[string]any{"key": kj(val)},
					Replay: &ReplayReq{Steps: twice(val), Judge: Judge{Kind: "panic"}}}
			}) {
				continue
			}
			rv2 := fs2.ret.(TupleV)
			if isNilErr(rv2[1]) || dynTypeName(rv2[0]) != "" {
				c.Prove(fs2, "second-lookup-is-an-error", False, func(val func(*Term) uint64) *Violation {
					return &Violation{Detail: fmt.Sprintf("%s accepts the unregistered key %v on the second look-up", tab.NewFn, kj(val)), Model: map[string]any{"key": kj(val)},
						Replay: &ReplayReq{Steps: twice(val), Judge: Judge{Kind: "err_nil", Step: 1}}}
				})
				continue
			}
			c.res.Obl++
			c.res.Dis++
		}
	}
}

// c12fill: Encode with the body left out and a registered key.
func c12fill(c *Ctx, mod string, tab *TableSpec, k int) {
	mc := MsgCase{Mod: mod, Typ: tab.Owner, Key: k, N: 0}
	h := c.newHarness(mc, "canon", 0)
	e := c.e()
	s := h.s
	ts := c.sc.Mods[mod].Types[tab.Owner]
	// drop the body from the materialised object
	bf := ts.BodyField()
	st := h.T.Underlying().(*types.Struct)
	idx := structField(st, bf.Go)
	o := s.heap[h.mPtr.Obj]
	sv := o.Val.(*StructV)
	nf := append([]Value{}, sv.F...)
	nf[idx] = &IfaceV{}
	o.Val = &StructV{F: nf}
	want := tab.Entries[k][1].(string)
	// reference: same value with a zero body of the pinned type
	zeroBody := zeroSVal(c, mod, want)
	exp := *h.m
	exp.F = append([]*SVal{}, h.m.F...)
	for i := range ts.Fields {
		if ts.Fields[i].Go == bf.Go {
			exp.F[i] = zeroBody
		}
	}
	steps := func(val func(*Term) uint64) []map[string]any {
		v := h.g.Concretize(h.m, val).(map[string]any)
		v[bf.Go] = nil
		return []map[string]any{
			step("op", "newbuf", "buf", "b", "hex", ""),
			step("op", "newmsg", "msg", "m", "module", mod, "type", tab.Owner, "value", v),
			step("op", "encode", "msg", "m", "buf", "b"),
		}
	}
	e.pushCall(s, h.enc, []Value{h.mPtr, &Ptr{Obj: h.bufID}}, nil)
	for _, fs := range e.Run(s) {
		if c.PathProblem(fs, "Encode(body absent)", func(val func(*Term) uint64, msg string) *Violation {
			return &Violation{Obligation: "no-panic", Detail: "Encode with the body left out panics: " + msg, Replay: &ReplayReq{Steps: steps(val), Judge: Judge{Kind: "panic"}}}
		}) {
			continue
		}
		after := h.g.Snapshot(fs, h.mPtr, mod, tab.Owner)
		var got string
		for i := range ts.Fields {
			if ts.Fields[i].Go == bf.Go {
				got = after.F[i].Typ
			}
		}
		if !isNilErr(fs.ret) {
			if c.sc.Mods[mod].Types[want].BodyField() != nil {
				// the filled-in body is itself an extended message whose zero-valued key is unregistered:
				// the error is the behaviour the property demands for the inner table; the type built must still be the pinned one
				c.Prove(fs, "materialised-type", B(got == want), func(val func(*Term) uint64) *Violation {
					return &Violation{Detail: fmt.Sprintf("Encode materialises %s for key %s, pinned type is %s", got, keyString(tab.Entries[k][0]), want),
						Replay: &ReplayReq{Steps: append(steps(val), step("op", "dump", "msg", "m")), Judge: Judge{Kind: "body_type_ne", Step: 3, Note: bf.Go, ExpectRet: want}}}
				})
				continue
			}
			c.Prove(fs, "fills-registered-key", False, func(val func(*Term) uint64) *Violation {
				return &Violation{Detail: "Encode with the body left out fails although the key is registered", Replay: &ReplayReq{Steps: steps(val), Judge: Judge{Kind: "err_nonnil", Step: 2}}}
			})
			continue
		}
		h.ref.Sum = h.sumOracle(fs)
		refB, _ := h.ref.Enc(&exp)
		out := unread(fs.heap[h.bufID])
		mk := func(what string) func(val func(*Term) uint64) *Violation {
			return func(val func(*Term) uint64) *Violation {
				return &Violation{Detail: what, Replay: &ReplayReq{Steps: steps(val), Judge: Judge{Kind: "buf_ne", Step: 2, ExpectHex: hexOf(evalBytes(refB, val))}}}
			}
		}
		c.Prove(fs, "materialised-type", B(got == want), func(val func(*Term) uint64) *Violation {
			return &Violation{Detail: fmt.Sprintf("Encode materialises %s for key %s, pinned type is %s", got, keyString(tab.Entries[k][0]), want),
				Replay: &ReplayReq{Steps: steps(val), Judge: Judge{Kind: "body_type_ne", Step: 2, Note: bf.Go, ExpectRet: want}}}
		})
		if c.Prove(fs, "filled-length", Eq(out.Len, refB.Len), mk("bytes of the filled-in body differ in length from the reference")) {
			c.Prove(fs, "filled-bytes", regionGoal(out, refB, CI(0), refB.Len, 4096), mk("bytes of the filled-in body differ from the reference encoding of a zero body"))
		}
		c.Witness(fs, "fill", nil)
	}
}

func zeroSVal(c *Ctx, mod, tn string) *SVal {
	ts := c.sc.Mods[mod].Types[tn]
	ov := &SVal{K: 'o', Mod: mod, Typ: tn, F: make([]*SVal, len(ts.Fields))}
	for i, f := range ts.Fields {
		switch f.Kind {
		case "int", "float", "computed_len", "computed_sum":
			ov.F[i] = &SVal{K: 'i', T: C(typeWidth(f.Type), 0)}
		case "fixstr", "pstr":
			ov.F[i] = constText("")
		case "list_basic", "list_fixstr", "list_pstr", "list_obj":
			ov.F[i] = &SVal{K: 'l'}
		case "nested":
			if f.Ptr {
				ov.F[i] = &SVal{K: 'n'}
			} else {
				ov.F[i] = zeroSVal(c, mod, f.Type)
			}
		case "body":
			ov.F[i] = &SVal{K: 'n'}
		}
	}
	return ov
}

func c12fillUnknown(c *Ctx, mod string, tab *TableSpec) {
	mc := MsgCase{Mod: mod, Typ: tab.Owner, Key: -1, N: 0}
	h := c.newHarness(mc, "canon", 0)
	e := c.e()
	s := h.s
	ts := c.sc.Mods[mod].Types[tab.Owner]
	bf := ts.BodyField()
	// the key field is symbolic (Key=-1 leaves it unconstrained): exclude the registered keys
	for i := range ts.Fields {
		if ts.Fields[i].Go != bf.Key {
			continue
		}
		kvv := h.m.F[i]
		var keys []string
		for _, en := range tab.Entries {
			keys = append(keys, keyString(en[0]))
			switch kv := en[0].(type) {
			case string:
				s.pc = append(s.pc, Not(strEqTerm(kvv.S, ConstBytes(kv))))
			case float64:
				s.pc = append(s.pc, Not(Eq(kvv.T, C(kvv.T.W, uint64(kv)))))
			}
		}
		sort.Strings(keys)
	}
	steps := func(val func(*Term) uint64) []map[string]any {
		v := h.g.Concretize(h.m, val).(map[string]any)
		v[bf.Go] = nil
		return []map[string]any{
			step("op", "newbuf", "buf", "b", "hex", ""),
			step("op", "newmsg", "msg", "m", "module", mod, "type", tab.Owner, "value", v),
			step("op", "encode", "msg", "m", "buf", "b"),
		}
	}
	c.Witness(s, "unregistered key", nil)
	e.pushCall(s, h.enc, []Value{h.mPtr, &Ptr{Obj: h.bufID}}, nil)
	for _, fs := range e.Run(s) {
		if c.PathProblem(fs, "Encode(body absent, unregistered key)", func(val func(*Term) uint64, msg string) *Violation {
			return &Violation{Obligation: "no-panic", Detail: "Encode with the body left out and an unregistered key panics: " + msg, Replay: &ReplayReq{Steps: steps(val), Judge: Judge{Kind: "panic"}}}
		}) {
			continue
		}
		if isNilErr(fs.ret) {
			c.Prove(fs, "unregistered-key-is-an-error", False, func(val func(*Term) uint64) *Violation {
				return &Violation{Detail: "Encode with the body left out succeeds although the key is not in the pinned table", Replay: &ReplayReq{Steps: steps(val), Judge: Judge{Kind: "err_nil", Step: 2}}}
			})
			continue
		}
		c.res.Obl++
		c.res.Dis++
	}
}
