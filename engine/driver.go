package main

// Driver framework: work items, obligations, sharding over worker processes, evidence, known findings.

import (
	"bufio"
	"encoding/json"
	"flag"
	"fmt"
	"hash/fnv"
	"os"
	"os/exec"
	"path/filepath"
	"runtime"
	"runtime/debug"
	"runtime/metrics"
	"sort"
	"strconv"
	"strings"
	"sync"
	"sync/atomic"
	"time"
)

type Violation struct {
	Property   string         `json:"property"`
	Item       string         `json:"item"`
	Obligation string         `json:"obligation"`
	Detail     string         `json:"detail"`
	Model      map[string]any `json:"model,omitempty"`
	Replay     *ReplayReq     `json:"replay,omitempty"`
	Confirmed  string         `json:"confirmed"` // "native", "not-reproduced", "unreplayable", ""
	Observed   any            `json:"observed,omitempty"`
	ReplayFile string         `json:"replay_file,omitempty"`
	Known      string         `json:"known,omitempty"`
}

type ItemResult struct {
	ID        string         `json:"id"`
	Obl       int            `json:"obl"`
	Dis       int            `json:"dis"`
	Syntactic int            `json:"syntactic"`
	Paths     int            `json:"paths"`
	Steps     int            `json:"steps"`
	Queries   int            `json:"queries"`
	SolverMs  float64        `json:"solver_ms"`
	WallMs    float64        `json:"wall_ms"`
	Viol      []Violation    `json:"viol,omitempty"`
	Inconcl   []string       `json:"inconcl,omitempty"`
	Sample    any            `json:"sample,omitempty"`
	Funcs     map[string]int `json:"funcs,omitempty"`
	Witness   int            `json:"witness"` // reachability witnesses found (vacuity guard)
	Vacuous   []string       `json:"vacuous,omitempty"`
	Imprecise []string       `json:"imprecise,omitempty"`
	Merges    int            `json:"merges"`
	MaxQMs    float64        `json:"max_query_ms"`
}

type Item struct {
	ID  string
	Run func(c *Ctx)
}

type Ctx struct {
	w    *World
	sc   *Schema
	tier string
	prop string
	seed int64
	res  *ItemResult
	item string
	gen  *Gen
	// fixLen != nil: concrete text lengths (fallback mode of runItem)
	fixLen func(maxLen int) int
}

type Driver struct {
	Prop       string
	Level      string
	Items      func(c *Ctx) []Item
	Bounds     func(tier string) map[string]any
	Assume     []string
	Explain    string
	PostParent func(c *Ctx, ev *Evidence) // optional extra parent-side work
}

var drivers = map[string]*Driver{}

func (c *Ctx) thorough() bool { return c.tier == "thorough" }

func (c *Ctx) e() *Engine { return c.w.e }

func (c *Ctx) Inconclusive(msg string) {
	c.res.Obl++
	c.res.Inconcl = append(c.res.Inconcl, msg)
}

// Prove counts one obligation: goal must hold under the path condition of s.
// onSat builds the violation (with a replay request) from the model.
func (c *Ctx) Prove(s *State, name string, goal *Term, onSat func(val func(*Term) uint64) *Violation) bool {
	c.res.Obl++
	if goal == True {
		c.res.Dis++
		c.res.Syntactic++
		return true
	}
	sv := c.e().solver
	if dl := c.e().deadline; !dl.IsZero() && time.Now().After(dl.Add(30*time.Second)) {
		c.res.Inconcl = append(c.res.Inconcl, name+": not decided: the item's time budget was exhausted")
		return false
	}
	ng := Not(goal)
	r := sv.CheckFlat(append(sliceFor(s.pc, []*Term{ng}), ng)...)
	if r == "sat" {
		// full path condition for a complete model (and to rule out an infeasible path)
		r = sv.CheckFlat(append(append([]*Term{}, s.pc...), ng)...)
	}
	switch r {
	case "unsat":
		c.res.Dis++
		return true
	case "sat":
		val := func(t *Term) uint64 {
			v, _ := sv.Value(t)
			return v
		}
		if os.Getenv("VF_DEBUG_PC") != "" {
			for i, t := range s.pc {
				if x, ok := sv.Value(t); ok && x == 0 {
					fmt.Fprintln(os.Stderr, "PC conjunct", i, "is false under the model:", dumpTerm(t, 5))
				}
			}
		}
		var v *Violation
		if onSat != nil {
			v = onSat(val)
		}
		if v == nil {
			v = &Violation{}
		}
		v.Property, v.Item = c.prop, c.item
		if v.Obligation == "" {
			v.Obligation = name
		}
		if v.Detail == "" {
			v.Detail = name + " can be violated"
		}
		sv.Done()
		c.res.Viol = append(c.res.Viol, *v)
		return false
	default:
		if os.Getenv("VF_DEBUG") != "" {
			fmt.Fprintln(os.Stderr, "UNKNOWN goal", name, ":", dumpTerm(goal, 6))
		}
		c.res.Inconcl = append(c.res.Inconcl, name+": solver answered unknown/timeout")
		return false
	}
}

// Witness: the path condition of s must be satisfiable (vacuity guard); returns a model accessor.
func (c *Ctx) Witness(s *State, what string, sample func(val func(*Term) uint64) any) bool {
	sv := c.e().solver
	r := sv.CheckFlat(s.pc...)
	if r == "sat" {
		c.res.Witness++
		if sample != nil && c.res.Sample == nil {
			c.res.Sample = sample(func(t *Term) uint64 { v, _ := sv.Value(t); return v })
		}
		sv.Done()
		return true
	}
	sv.Done()
	if r == "unsat" {
		c.res.Vacuous = append(c.res.Vacuous, what)
	}
	return false
}

// PathProblem handles a final state that ended in a panic or was cut; returns true if the state is unusable.
func (c *Ctx) PathProblem(s *State, where string, mkViol func(val func(*Term) uint64, msg string) *Violation) bool {
	c.res.Imprecise = unionStr(c.res.Imprecise, s.imprec)
	if s.cut != "" {
		c.Inconclusive(where + ": " + s.cut)
		return true
	}
	if s.panicd != "" {
		// a panic path: the path condition is feasible by construction of forks, ask for a model
		c.res.Obl++
		sv := c.e().solver
		r := sv.CheckFlat(s.pc...)
		if r == "sat" {
			val := func(t *Term) uint64 { v, _ := sv.Value(t); return v }
			var v *Violation
			if mkViol != nil {
				v = mkViol(val, s.panicd)
			}
			if v == nil {
				v = &Violation{}
			}
			v.Property, v.Item = c.prop, c.item
			if v.Obligation == "" {
				v.Obligation = "no-panic"
			}
			if v.Detail == "" {
				v.Detail = where + ": " + s.panicd
			}
			sv.Done()
			c.res.Viol = append(c.res.Viol, *v)
		} else if r == "unsat" {
			sv.Done()
			c.res.Dis++ // infeasible after all
		} else {
			sv.Done()
			c.res.Inconcl = append(c.res.Inconcl, where+": panic path feasibility unknown: "+s.panicd)
		}
		return true
	}
	return false
}

// ---------------------------------------------------------------- evidence

type Evidence struct {
	PropertyID string         `json:"property_id"`
	Tier       string         `json:"tier"`
	Seed       int64          `json:"seed"`
	Level      string         `json:"level"`
	Coverage   map[string]any `json:"coverage"`
	Assume     []string       `json:"assumptions"`
	WallS      float64        `json:"wall_s"`
	Violations int            `json:"violations"`
}

type KnownFinding struct {
	Status   string            `json:"status"`
	Property string            `json:"property"`
	Match    map[string]string `json:"match"`
	Commit   string            `json:"commit,omitempty"`
	What     string            `json:"what"`
}

func loadKnown() []KnownFinding {
	raw, err := os.ReadFile(filepath.Join(verifDir(), "known_findings.json"))
	if err != nil {
		return nil
	}
	var out struct {
		Findings []KnownFinding `json:"findings"`
	}
	if json.Unmarshal(raw, &out) != nil {
		return nil
	}
	return out.Findings
}

func matchKnown(kf []KnownFinding, v *Violation) *KnownFinding {
	for i := range kf {
		k := &kf[i]
		if k.Status != "known" || k.Property != v.Property {
			continue
		}
		ok := true
		if p := k.Match["item"]; p != "" {
			if m, _ := filepath.Match(p, v.Item); !m {
				ok = false
			}
		}
		if p := k.Match["obligation"]; p != "" {
			if m, _ := filepath.Match(p, v.Obligation); !m {
				ok = false
			}
		}
		if ok {
			return k
		}
	}
	return nil
}

// ---------------------------------------------------------------- main

func runMain() int {
	fs := flag.NewFlagSet("vfcheck", flag.ExitOnError)
	prop := fs.String("prop", "", "property id")
	tier := fs.String("tier", "quick", "quick|thorough")
	worker := fs.Bool("worker", false, "worker mode (internal)")
	shard := fs.String("shard", "0/1", "shard i/n")
	only := fs.String("only", "", "substring filter on item ids")
	nw := fs.Int("workers", 0, "worker processes")
	list := fs.Bool("list", false, "list items")
	replay := fs.String("replay", "", "replay file")
	fs.Parse(os.Args[1:])
	if *replay != "" {
		return replayFile(*replay)
	}
	if t := os.Getenv("VERIF_TIER"); t != "" && !isFlagSet(fs, "tier") {
		*tier = t
	}
	d := drivers[*prop]
	if d == nil {
		fmt.Fprintln(os.Stderr, "unknown property", *prop)
		return 2
	}
	seed := int64(1)
	if v := os.Getenv("VERIF_SEED"); v != "" {
		if n, err := strconv.ParseInt(v, 10, 64); err == nil {
			seed = n
		}
	}
	if *worker {
		return workerMain(d, *tier, seed, *shard, *only)
	}
	if *list {
		c, err := newCtx(d, *tier, seed)
		if err != nil {
			fmt.Fprintln(os.Stderr, err)
			return 2
		}
		for _, it := range d.Items(c) {
			fmt.Println(it.ID)
		}
		return 0
	}
	n := *nw
	if n == 0 {
		n = runtime.NumCPU()
		if v := os.Getenv("VF_WORKERS"); v != "" {
			n, _ = strconv.Atoi(v)
		}
	}
	return parentMain(d, *tier, seed, n, *only)
}

func isFlagSet(fs *flag.FlagSet, name string) bool {
	set := false
	fs.Visit(func(f *flag.Flag) {
		if f.Name == name {
			set = true
		}
	})
	return set
}

func newCtx(d *Driver, tier string, seed int64) (*Ctx, error) {
	sc, err := LoadSchema()
	if err != nil {
		return nil, err
	}
	tmo := 20000
	if tier == "thorough" {
		tmo = 120000
	}
	if v := os.Getenv("VF_TIMEOUT_MS"); v != "" {
		tmo, _ = strconv.Atoi(v)
	}
	bin := "z3-new"
	if v := os.Getenv("VF_SOLVER"); v != "" {
		bin = v
	}
	w, err := LoadWorld(bin, tmo)
	if err != nil {
		return nil, err
	}
	return &Ctx{w: w, sc: sc, tier: tier, prop: d.Prop, seed: seed}, nil
}

func workerMain(d *Driver, tier string, seed int64, shard, only string) int {
	var si, sn int
	fmt.Sscanf(shard, "%d/%d", &si, &sn)
	c, err := newCtx(d, tier, seed)
	out := bufio.NewWriter(os.Stdout)
	defer out.Flush()
	enc := json.NewEncoder(out)
	if err != nil {
		enc.Encode(map[string]any{"fatal": err.Error()})
		return 2
	}
	enc.Encode(map[string]any{"load_s": c.w.loadS, "init_steps": c.w.nInit})
	items := interleave(d.Items(c))
	// memory watchdog: a soft limit cuts the running exploration (reported as inconclusive); past the hard limit
	// the worker reports the current and the remaining items as not explored and exits cleanly instead of
	// being killed by the kernel (which would make the whole check count as broken)
	var outMu sync.Mutex
	var curIdx atomic.Int64
	curIdx.Store(-1)
	go func() {
		sample := []metrics.Sample{{Name: "/memory/classes/heap/objects:bytes"}}
		soft, hard := uint64(2500<<20), uint64(3500<<20)
		if v, err := strconv.Atoi(os.Getenv("VF_MEMSOFT_MB")); err == nil && v > 0 {
			soft, hard = uint64(v)<<20, uint64(v+v/2)<<20
		}
		for {
			time.Sleep(200 * time.Millisecond)
			metrics.Read(sample)
			used := sample[0].Value.Uint64()
			memExceeded.Store(used > soft)
			if used > hard {
				outMu.Lock()
				ci := int(curIdx.Load())
				for i, it := range items {
					if shardOf(it.ID, sn) != si || i < ci || (only != "" && !strings.Contains(it.ID, only)) {
						continue
					}
					msg := "not explored: the worker's memory budget was exhausted by an earlier item"
					if i == ci {
						msg = fmt.Sprintf("memory budget exceeded (%d MiB): exploration abandoned", used>>20)
					}
					enc.Encode(&ItemResult{ID: it.ID, Obl: 1, Inconcl: []string{msg}})
				}
				out.Flush()
				os.Exit(0)
			}
		}
	}()
	// cost-balanced round robin: items are assigned by index
	for i, it := range items {
		if shardOf(it.ID, sn) != si {
			continue
		}
		if only != "" && !strings.Contains(it.ID, only) {
			continue
		}
		if dl := os.Getenv("VF_DEADLINE"); dl != "" {
			if t, err := strconv.ParseInt(dl, 10, 64); err == nil && time.Now().Unix() > t {
				enc.Encode(&ItemResult{ID: it.ID, Obl: 1, Inconcl: []string{"not explored: the check's overall time budget was exhausted"}})
				out.Flush()
				continue
			}
		}
		if pf := os.Getenv("VF_PROGRESS"); pf != "" {
			if fh, err := os.OpenFile(pf, os.O_APPEND|os.O_CREATE|os.O_WRONLY, 0o644); err == nil {
				fmt.Fprintf(fh, "%s shard %s START %s\n", time.Now().Format("15:04:05"), shard, it.ID)
				fh.Close()
			}
		}
		curIdx.Store(int64(i))
		res := c.runItem(it)
		outMu.Lock()
		enc.Encode(res)
		out.Flush()
		outMu.Unlock()
		if memExceeded.Load() {
			resetTerms()
			c.e().solver.Restart()
			debug.FreeOSMemory()
		}
	}
	outMu.Lock() // (held to the end: the watchdog must not write after the last result)
	return 0
}

var memExceeded atomic.Bool

func (c *Ctx) runItem(it Item) *ItemResult {
	e := c.e()
	res := &ItemResult{ID: it.ID}
	c.res, c.item = res, it.ID
	q0, t0s, p0, st0, m0 := e.solver.Queries, e.solver.Time, e.Paths, e.Steps, e.Merges
	e.solver.MaxQuery = 0
	e.funcs = map[string]int{}
	crcLog = nil
	t0 := time.Now()
	budget := 60 * time.Second
	if c.thorough() {
		budget = 900 * time.Second
	}
	if v := os.Getenv("VF_ITEM_BUDGET_S"); v != "" {
		if n, err := strconv.Atoi(v); err == nil {
			budget = time.Duration(n) * time.Second
		}
	}
	e.deadline = t0.Add(budget)
	func() {
		defer func() {
			if r := recover(); r != nil {
				if be, ok := r.(bindErr); ok {
					c.Inconclusive("cannot bind schema to the tree: " + string(be))
					return
				}
				if eu, ok := r.(engineUnsupported); ok {
					c.Inconclusive("unsupported: " + string(eu))
					return
				}
				buf := make([]byte, 4096)
				n := runtime.Stack(buf, false)
				c.Inconclusive(fmt.Sprintf("engine failure: %v\n%s", r, buf[:n]))
				e.solver.Done()
			}
		}()
		msgLevel := !strings.Contains(it.ID, "prim") && !strings.Contains(it.ID, ":C") && !strings.HasPrefix(it.ID, "stream") && !strings.HasPrefix(it.ID, "lemmas") && !strings.HasPrefix(it.ID, "pattern") && !strings.HasPrefix(it.ID, "seq:") && !strings.HasPrefix(it.ID, "sched:") && !strings.HasPrefix(it.ID, "arbmsg:")
		if msgLevel {
			e.symLoopLimit = 3
		}
		e.abortMsg = ""
		it.Run(c)
		e.symLoopLimit = 0
		e.abortMsg = ""
		// fallback: the code loops on a symbolic text length (or the exploration ran out of budget): decide the
		// item for concrete text lengths instead (content stays symbolic) - a reduced bound, recorded as such
		needFallback := false
		for _, m := range res.Inconcl {
			if strings.Contains(m, "symbolic-trip-count loop") {
				needFallback = true
			}
		}
		if needFallback && msgLevel && c.fixLen == nil {
			first := *res
			*res = ItemResult{ID: it.ID}
			modes := []struct {
				name string
				f    func(m int) int
			}{
				{"0", func(m int) int { return 0 }},
				{"1", func(m int) int { return min(1, m) }},
				{"half", func(m int) int { return m / 2 }},
				{"max-1", func(m int) int { return max(m-1, 0) }},
				{"max", func(m int) int { return m }},
			}
			used := false
			for _, md := range modes {
				f := md.f
				c.fixLen = func(m int) int { used = true; return f(m) }
				e.deadline = time.Now().Add(budget)
				it.Run(c)
				if !used {
					// the item generates no symbolic texts (its lengths come from decoded bytes): this run was the
					// plain full exploration of the loop, there is nothing to vary
					break
				}
			}
			c.fixLen = nil
			if used {
				res.Imprecise = unionStr(res.Imprecise, []string{"reduced bound: the code loops on a text length (" + firstLine(first.Inconcl[0]) + "); decided for text lengths {0, 1, max/2, max-1, max} of each field (uniform), contents symbolic"})
			}
			res.Paths += first.Paths
		}
	}()
	e.solver.Done()
	res.Queries = e.solver.Queries - q0
	res.SolverMs = float64((e.solver.Time - t0s).Microseconds()) / 1000
	res.WallMs = float64(time.Since(t0).Microseconds()) / 1000
	res.Paths = e.Paths - p0
	res.Steps = e.Steps - st0
	res.Merges = e.Merges - m0
	res.Funcs = e.funcs
	res.MaxQMs = float64(e.solver.MaxQuery.Microseconds()) / 1000
	// keep the term table bounded on long runs
	if tcount > 3000000 {
		resetTerms()
		e.solver.Restart()
	}
	return res
}

func resetTerms() {
	// Dropping the table only loses sharing, never correctness: ids stay unique (tcount is not reset) and
	// constants compare by value.
	hc = map[termKey]*Term{}
	varsMemo = map[int][]int{}
	boundsMemo = map[*Term]boundsEntry{}
	windowMemo = map[*Term]struct {
		arr  *Term
		base int64
		n    int
		ok   bool
	}{}
	ubMemo = map[*Term]boundsEntry{}
	hc[termKey{op: "true"}] = True
	hc[termKey{op: "false"}] = False
	varBounds = map[*Term][2]int64{}
}

func parentMain(d *Driver, tier string, seed int64, nworkers int, only string) int {
	t0 := time.Now()
	exe, _ := os.Executable()
	// translator validation runs concurrently with the workers
	tvDone := make(chan error, 1)
	go func() {
		n, err := runTV(d, seed)
		tvCount = n
		tvDone <- err
	}()
	type wres struct {
		items []*ItemResult
		fatal string
		loadS float64
		err   string
	}
	results := make([]wres, nworkers)
	var wg sync.WaitGroup
	for i := 0; i < nworkers; i++ {
		wg.Add(1)
		go func(i int) {
			defer wg.Done()
			args := []string{"-worker", "-prop", d.Prop, "-tier", tier, "-shard", fmt.Sprintf("%d/%d", i, nworkers)}
			if only != "" {
				args = append(args, "-only", only)
			}
			cmd := exec.Command(exe, args...)
			limit := 12 * time.Minute
			if tier == "thorough" {
				limit = 4 * time.Hour
			}
			cmd.Env = append(os.Environ(), fmt.Sprintf("VERIF_SEED=%d", seed), fmt.Sprintf("VF_DEADLINE=%d", t0.Add(limit).Unix()))
			cmd.Stderr = os.Stderr
			op, _ := cmd.StdoutPipe()
			if err := cmd.Start(); err != nil {
				results[i].fatal = err.Error()
				return
			}
			// hard stop: a worker that is still busy well after the overall budget is killed; what it has
			// reported so far counts, the rest of its share is inconclusive
			killed := false
			timer := time.AfterFunc(limit+4*time.Minute, func() {
				killed = true
				cmd.Process.Kill()
			})
			defer timer.Stop()
			defer func() {
				if killed {
					results[i].err = ""
					results[i].items = append(results[i].items, &ItemResult{ID: fmt.Sprintf("(worker %d)", i), Obl: 1,
						Inconcl: []string{"worker stopped by the hard time limit: the remaining items of its share were not explored"}})
				}
			}()
			sc := bufio.NewScanner(op)
			sc.Buffer(make([]byte, 1<<20), 1<<28)
			for sc.Scan() {
				line := sc.Bytes()
				if len(line) == 0 || line[0] != '{' {
					continue
				}
				var probe map[string]json.RawMessage
				if json.Unmarshal(line, &probe) != nil {
					continue
				}
				if f, ok := probe["fatal"]; ok {
					json.Unmarshal(f, &results[i].fatal)
					continue
				}
				if l, ok := probe["load_s"]; ok {
					json.Unmarshal(l, &results[i].loadS)
					continue
				}
				var r ItemResult
				if json.Unmarshal(line, &r) == nil && r.ID != "" {
					results[i].items = append(results[i].items, &r)
				}
			}
			if err := cmd.Wait(); err != nil {
				results[i].err = err.Error()
			}
		}(i)
	}
	wg.Wait()
	var all []*ItemResult
	broken := ""
	for _, r := range results {
		if r.fatal != "" {
			broken = r.fatal
		}
		if r.err != "" && broken == "" {
			broken = "worker failed: " + r.err
		}
		all = append(all, r.items...)
	}
	sort.Slice(all, func(i, j int) bool { return all[i].ID < all[j].ID })
	if broken != "" {
		fmt.Println("CHECK BROKEN:", broken)
		return 2
	}
	if err := <-tvDone; err != nil {
		// the engine's model of the code disagrees with the compiled code on a concrete vector
		fmt.Println("CHECK BROKEN:", err)
		return 2
	}
	rc := finish(d, tier, seed, all, time.Since(t0), nworkers)
	cleanupRunner()
	return rc
}

func finish(d *Driver, tier string, seed int64, all []*ItemResult, wall time.Duration, nworkers int) int {
	known := loadKnown()
	ev := &Evidence{PropertyID: d.Prop, Tier: tier, Seed: seed, Level: d.Level, Coverage: map[string]any{}, Assume: d.Assume}
	var obl, dis, syn, paths, steps, queries, witness, merges int
	var solverMs, maxQ float64
	funcs := map[string]int{}
	var inconcl, vacuous, imprec []string
	var viols []Violation
	var samples []any
	for _, r := range all {
		obl += r.Obl
		dis += r.Dis
		syn += r.Syntactic
		paths += r.Paths
		steps += r.Steps
		queries += r.Queries
		solverMs += r.SolverMs
		witness += r.Witness
		merges += r.Merges
		if r.MaxQMs > maxQ {
			maxQ = r.MaxQMs
		}
		for k, v := range r.Funcs {
			funcs[k] += v
		}
		for _, m := range r.Inconcl {
			inconcl = append(inconcl, r.ID+": "+m)
		}
		for _, m := range r.Vacuous {
			vacuous = append(vacuous, r.ID+": "+m)
		}
		imprec = unionStr(imprec, r.Imprecise)
		viols = append(viols, r.Viol...)
		if r.Sample != nil && len(samples) < 5 {
			samples = append(samples, map[string]any{"item": r.ID, "witness": r.Sample})
		}
	}
	// replay candidates natively
	nViol := 0
	var outLines []string
	confirmViolations(d, viols)
	seenKnown := map[string]bool{}
	for i := range viols {
		v := &viols[i]
		switch v.Confirmed {
		case "native", "unreplayable":
			if k := matchKnown(known, v); k != nil {
				v.Known = k.What
				key := k.Property + "|" + k.What
				if !seenKnown[key] {
					seenKnown[key] = true
					outLines = append(outLines, fmt.Sprintf("KNOWN-FINDING: property=%s %s", v.Property, k.What))
				}
				continue
			}
			if v.Confirmed == "unreplayable" {
				inconcl = append(inconcl, fmt.Sprintf("%s: %s: counterexample cannot be replayed natively (%s)", v.Item, v.Obligation, v.Detail))
				continue
			}
			nViol++
			outLines = append(outLines, fmt.Sprintf("VIOLATION property=%s replay=%s", v.Property, v.ReplayFile))
			outLines = append(outLines, fmt.Sprintf("  item=%s obligation=%s: %s", v.Item, v.Obligation, v.Detail))
		default:
			if v.Confirmed == "not-replayed" {
				inconcl = append(inconcl, fmt.Sprintf("%s: %s: counterexample not replayed (replay cap reached): %s", v.Item, v.Obligation, v.Detail))
			} else {
				inconcl = append(inconcl, fmt.Sprintf("%s: %s: solver counterexample not reproduced natively (encoding gap): %s", v.Item, v.Obligation, v.Detail))
			}
		}
	}
	slow := append([]*ItemResult{}, all...)
	sort.Slice(slow, func(i, j int) bool { return slow[i].WallMs > slow[j].WallMs })
	var slowest []string
	for i := 0; i < len(slow) && i < 8; i++ {
		slowest = append(slowest, fmt.Sprintf("%s: %.1fs wall, %.1fs solver, %d queries", slow[i].ID, slow[i].WallMs/1000, slow[i].SolverMs/1000, slow[i].Queries))
	}
	ev.Coverage["slowest_items"] = slowest
	fnames := make([]string, 0, len(funcs))
	for k := range funcs {
		fnames = append(fnames, k)
	}
	sort.Strings(fnames)
	if len(fnames) > 400 {
		fnames = append(fnames[:400], fmt.Sprintf("... and %d more", len(fnames)-400))
	}
	if len(samples) == 0 {
		samples = append(samples, map[string]any{"note": "no reachability witness recorded", "items": len(all)})
	}
	ev.Coverage["states"] = max(paths, 1)
	ev.Coverage["transitions"] = max(steps, 1)
	ev.Coverage["traces_validated_against_impl"] = tvCount
	ev.Coverage["samples"] = samples
	ev.Coverage["obligations"] = obl
	ev.Coverage["discharged"] = dis
	ev.Coverage["discharged_syntactically"] = syn
	ev.Coverage["solver_queries"] = queries
	ev.Coverage["solver"] = "z3 5.1.0: persistent incremental process (push/pop, " + map[string]string{"quick": "3 s", "thorough": "10 s"}[tier] + " per query) with fresh-process fallback for unknown answers (" + map[string]string{"quick": "20 s", "thorough": "120 s"}[tier] + ")"
	ev.Coverage["solver_time_s"] = solverMs / 1000
	ev.Coverage["max_query_ms"] = maxQ
	ev.Coverage["items"] = len(all)
	ev.Coverage["programs"] = len(all)
	ev.Coverage["disagreements_checked"] = obl
	ev.Coverage["reachability_witnesses"] = witness
	ev.Coverage["merges"] = merges
	ev.Coverage["functions_encoded"] = fnames
	ev.Coverage["functions_encoded_count"] = len(funcs)
	ev.Coverage["trusted_base"] = TrustedBase
	ev.Coverage["workers"] = nworkers
	ev.Coverage["repo"] = repoDir()
	if d.Bounds != nil {
		ev.Coverage["bounds"] = d.Bounds(tier)
	}
	ev.Coverage["explanation"] = d.Explain
	if len(inconcl) > 0 {
		ev.Coverage["inconclusive"] = trunc(inconcl, 200)
	}
	if len(vacuous) > 0 {
		ev.Coverage["vacuous"] = trunc(vacuous, 100)
	}
	if len(imprec) > 0 {
		ev.Coverage["imprecise_paths"] = trunc(imprec, 100)
	}
	var vsum []map[string]any
	for _, v := range viols {
		vsum = append(vsum, map[string]any{"item": v.Item, "obligation": v.Obligation, "detail": v.Detail, "confirmed": v.Confirmed, "replay": v.ReplayFile, "known": v.Known})
		if len(vsum) >= 50 {
			break
		}
	}
	if len(vsum) > 0 {
		ev.Coverage["counterexamples"] = vsum
	}
	ev.Violations = nViol
	ev.WallS = wall.Seconds()
	// evidence of a run against another tree (VERIF_REPO: seeded changes, scratch worktrees) must not replace
	// the committed evidence of /repo
	evDir := filepath.Join(verifDir(), "evidence")
	if repoDir() != "/repo" {
		evDir = filepath.Join(verifDir(), "scratch", "evidence-other-tree")
	}
	os.MkdirAll(evDir, 0o755)
	raw, _ := json.MarshalIndent(ev, "", " ")
	os.WriteFile(filepath.Join(evDir, d.Prop+".json"), raw, 0o644)
	for _, l := range outLines {
		fmt.Println(l)
	}
	for i, m := range inconcl {
		if i >= 20 {
			fmt.Printf("INCONCLUSIVE ... and %d more\n", len(inconcl)-20)
			break
		}
		fmt.Println("INCONCLUSIVE", firstLine(m))
	}
	for _, m := range vacuous {
		fmt.Println("VACUOUS", m)
	}
	fmt.Printf("%s %s: items=%d paths=%d obligations=%d discharged=%d (syntactic %d) queries=%d solver=%.1fs wall=%.1fs violations=%d inconclusive=%d\n",
		d.Prop, tier, len(all), paths, obl, dis, syn, queries, solverMs/1000, wall.Seconds(), nViol, len(inconcl))
	if nViol > 0 {
		return 1
	}
	return 0
}

func firstLine(s string) string {
	if i := strings.Index(s, "\n"); i >= 0 {
		return s[:i]
	}
	return s
}
func trunc(xs []string, n int) []string {
	if len(xs) > n {
		return append(append([]string{}, xs[:n]...), fmt.Sprintf("... and %d more", len(xs)-n))
	}
	return xs
}

var tvCount int

// interleave reorders items round-robin over their leading group (module / kind prefix), so that a run cut
// short by the time budget has touched every group instead of only the alphabetically first ones.
func interleave(items []Item) []Item {
	groups := map[string][]Item{}
	var order []string
	for _, it := range items {
		g := it.ID
		if i := strings.IndexAny(g, "./"); i >= 0 {
			g = g[:i]
		}
		if _, ok := groups[g]; !ok {
			order = append(order, g)
		}
		groups[g] = append(groups[g], it)
	}
	var out []Item
	for k := 0; len(out) < len(items); k++ {
		for _, g := range order {
			if k < len(groups[g]) {
				out = append(out, groups[g][k])
			}
		}
	}
	return out
}

// shardOf: the worker an item belongs to, from its ID alone - every worker builds its own item list, and a list
// that differs by one entry between two processes must not shift the assignment of all the others (an index-based
// assignment silently ran some items twice and others not at all when go/ssa named one instantiation
// ReadBasicType[byte] in one process and ReadBasicType[uint8] in another).
func shardOf(id string, n int) int {
	if n <= 1 {
		return 0
	}
	h := fnv.New32a()
	h.Write([]byte(id))
	return int(h.Sum32() % uint32(n))
}
