package main

func runMain() int { return 0 }
