package main

// C17 (Encode never panics), C16 (no aliasing between messages and buffers), C20 (no hidden shared state).

import (
	"fmt"
	"go/types"
	"sort"
	"strings"
)

func init() {
	drivers["C17"] = &Driver{Prop: "C17", Level: "model_checking",
		Explain: "the real Encode of every codec type is executed on: the zero value; the result of the real constructor (executed too); wide symbolic values (arbitrary scalars, text 0..W+2, lists within the shapes); a body/extension of a mismatching registered type; absent body/extension with every registered key and with a symbolic unregistered key; each nested pointer part absent in turn. No panic side condition (nil dereference, failed type assertion, index/slice bounds, nil map) may be satisfiable; every path must return nil or an error. Outside, as the property says: nil elements inside lists, typed-nil pointers in interface fields",
		Assume:  []string{"standard-library contracts listed under trusted_base"},
		Bounds: func(tier string) map[string]any {
			return map[string]any{"values": "zero, constructor, wide symbolic (lists uniform 0..2), mismatching body, absent body x every key, absent body x symbolic unregistered key, each nested part absent", "types": "all codec types incl. hand-written"}
		},
		Items: func(c *Ctx) []Item {
			var items []Item
			for _, mod := range modules {
				ms := c.sc.Mods[mod]
				for _, tn := range ms.TypeNames() {
					mod, tn := mod, tn
					ts := ms.Types[tn]
					items = append(items, Item{ID: fmt.Sprintf("zero:%s.%s", mod, tn), Run: func(c *Ctx) { c17zero(c, mod, tn, false) }})
					items = append(items, Item{ID: fmt.Sprintf("ctor:%s.%s", mod, tn), Run: func(c *Ctx) { c17zero(c, mod, tn, true) }})
					for i, f := range ts.Fields {
						if f.Kind == "nested" && f.Ptr {
							i := i
							items = append(items, Item{ID: fmt.Sprintf("nilpart:%s.%s.%s", mod, tn, f.Go), Run: func(c *Ctx) { c17variant(c, MsgCase{Mod: mod, Typ: tn, Key: -1, N: 1}, "nilpart", i) }})
						}
					}
					if bf := ts.BodyField(); bf != nil {
						tab := ms.Tables[bf.Table]
						for k := range tab.Entries {
							k := k
							items = append(items, Item{ID: fmt.Sprintf("nilbody:%s.%s/key=%d", mod, tn, k), Run: func(c *Ctx) { c17variant(c, MsgCase{Mod: mod, Typ: tn, Key: k, N: 1}, "nilbody", -1) }})
							items = append(items, Item{ID: fmt.Sprintf("mismatch:%s.%s/key=%d", mod, tn, k), Run: func(c *Ctx) { c17variant(c, MsgCase{Mod: mod, Typ: tn, Key: k, N: 1}, "mismatch", -1) }})
						}
						items = append(items, Item{ID: fmt.Sprintf("nilbody:%s.%s/unregistered", mod, tn), Run: func(c *Ctx) { c17variant(c, MsgCase{Mod: mod, Typ: tn, Key: -1, N: 1}, "nilbody-unregistered", -1) }})
					}
				}
			}
			for _, mc := range c.msgCases([]int{0, 2}, false, false) {
				mc := mc
				if mc.Key > 0 && !c.thorough() {
					continue // quick tier: wide values per key are exercised by C02/C06; here one key per type
				}
				items = append(items, Item{ID: "wide:" + mc.ID(), Run: func(c *Ctx) { c17variant(c, mc, "wide", -1) }})
				if fi := c.frameInfo(mc.Mod, mc.Typ); fi != nil && fi.Alg != "" && mc.N == 0 {
					// checksummed frames also with the checksum registry emptied (a service that is not there must
					// not be dereferenced)
					items = append(items, Item{ID: "noreg:" + mc.ID(), Run: func(c *Ctx) { c17variant(c, mc, "noreg", -1) }})
				}
				if mc.N == 0 {
					// every text length 0..300 of the last length-prefixed text (symbolic length: scratch arrays and
					// small-value fast paths have their limits somewhere in there)
					ts := c.sc.Mods[mc.Mod].Types[mc.Typ]
					last := -1
					for i, f := range ts.Fields {
						if f.Kind == "pstr" {
							last = i
						}
					}
					if last >= 0 {
						last := last
						items = append(items, Item{ID: "longtext:" + mc.ID() + "/" + ts.Fields[last].Go, Run: func(c *Ctx) { c17variant(c, mc, "longtext", last) }})
					}
				}
				if mc.N == 0 {
					// the same into a partly drained buffer (consumed bytes in front, unknown spare capacity behind)
					items = append(items, Item{ID: "drained:" + mc.ID(), Run: func(c *Ctx) { c17variant(c, mc, "drained", -1) }})
				}
			}
			return items
		}}
	drivers["C16"] = &Driver{Prop: "C16", Level: "model_checking",
		Explain: "object identities of the symbolic executor: (decode side) after the real Decode of an arbitrary wire image, no string or slice reachable from the message may share memory with the buffer object (strings produced by unsafe.String/Slice, Bytes()/Next() views and header reinterpretation are modelled as aliasing views); then the buffer's backing bytes are havocked and the message must be unchanged; (encode side) after the real Encode the buffer may not share any object with the message; then every list backing array and nested part of the message is havocked and the bytes written must be unchanged",
		Assume:  []string{"standard-library contracts listed under trusted_base: readers copy (make+ReadFull, string([]byte)); Bytes/Next/NewBuffer/unsafe.* produce aliasing views", "an aliasing construct outside the modelled ones makes the path imprecise and is reported as inconclusive"},
		Bounds: func(tier string) map[string]any {
			return map[string]any{"images": "arbitrary wire images per type/key, list counts uniform 0..2", "values": "wide symbolic values per type/key"}
		},
		Items: func(c *Ctx) []Item {
			var items []Item
			for _, mc := range c.msgCases([]int{0, 2}, false, false) {
				mc := mc
				items = append(items, Item{ID: "dec:" + mc.ID(), Run: func(c *Ctx) { c16dec(c, mc) }})
				items = append(items, Item{ID: "enc:" + mc.ID(), Run: func(c *Ctx) { c16enc(c, mc) }})
			}
			// length-prefixed text far beyond the small shapes: bulk / zero-copy paths that start at a size
			// threshold (every type that carries such a text, first key, lists empty)
			seen := map[string]bool{}
			for _, mc := range c.msgCases([]int{0}, false, false) {
				if _, pstr, _ := c.treeInfo(mc.Mod, mc.Typ, mc.Key, mc.Inner, 0); !pstr || seen[mc.Mod+"."+mc.Typ] || c.frameInfo(mc.Mod, mc.Typ) != nil {
					continue
				}
				seen[mc.Mod+"."+mc.Typ] = true
				lens := []int{300, 40000}
				if c.thorough() {
					lens = []int{255, 256, 4097, 32769, 65535, 70000}
				}
				for _, L := range lens {
					mc := mc
					mc.PLen = L + 1
					items = append(items, Item{ID: "dec:" + mc.ID(), Run: func(c *Ctx) { c16dec(c, mc) }})
				}
			}
			// list readers far beyond the small shapes (bulk / zero-copy paths that start at a payload size)
			for _, p := range c.primInstances() {
				p := p
				if p.Family != "ReadBasicTypeList" || p.TArgs[0] != "uint16" {
					continue
				}
				switch p.TArgs[1] {
				case "uint8", "int16", "uint64":
				default:
					continue
				}
				for _, n := range []int{300} {
					n := n
					items = append(items, Item{ID: fmt.Sprintf("primlong:%s/n=%d", p.Name, n), Run: func(c *Ctx) { c16primLong(c, p, n) }})
				}
			}
			return items
		}}
	drivers["C20"] = &Driver{Prop: "C20", Level: "model_checking",
		Explain: "footprint obligation on single calls: on every path of the real Encode (wide values) and Decode (arbitrary images, every prefix) of every type/key the executor records every access to an object that existed after package initialisation (the 18 factory maps, the checksum registry, any package variable). No such object may be written; the registry may be read only with its lock held; no go/channel/unmodelled-sync instruction is reached. Calls whose writes are confined to their own arguments and fresh objects commute, so every interleaving of calls on disjoint messages/buffers gives the sequential results and is race-free",
		Assume:  []string{"standard-library contracts listed under trusted_base; concurrency inside the standard library (crc32 tables, fmt pools) is trusted", "the commutation argument is a meta-argument; its side condition (no global write, locked registry read) is what the solver-backed exploration establishes on every feasible path", "calling the exported Registry...Factory functions after start-up is outside the property"},
		Bounds: func(tier string) map[string]any {
			return map[string]any{"calls": "Encode on wide values and Decode on every prefix of arbitrary images, every type/key, lists uniform 0..2"}
		},
		Items: func(c *Ctx) []Item {
			var items []Item
			for _, mc := range c.msgCases([]int{0, 2}, false, false) {
				mc := mc
				items = append(items, Item{ID: mc.ID(), Run: func(c *Ctx) { c20(c, mc) }})
			}
			// the zero value of every type (absent parts are filled in by Encode: with what?)
			for _, mod := range modules {
				for _, tn := range c.sc.Mods[mod].TypeNames() {
					mod, tn := mod, tn
					items = append(items, Item{ID: "zero:" + mod + "." + tn, Run: func(c *Ctx) { c20zero(c, mod, tn) }})
				}
			}
			return items
		}}
}

// c20zero: Encode of the zero value: footprint, and the filled-in message must own its memory.
func c20zero(c *Ctx, mod, tn string) {
	e := c.e()
	T := c.w.typeOf(mod, tn)
	enc := c.w.method(mod, tn, "Encode")
	if T == nil || enc == nil {
		c.Inconclusive("type or Encode not found")
		return
	}
	s := c.w.newState()
	recv := &Ptr{Obj: s.newObj(&Obj{Kind: kCell, Val: e.zero(T)})}
	bufID := s.newObj(&Obj{Kind: kBuffer, B: EmptyBytes(), R: CI(0)})
	replay := func(val func(*Term) uint64) *ReplayReq {
		steps := []map[string]any{step("op", "newbuf", "buf", "b", "hex", ""), step("op", "newmsg", "msg", "m", "module", mod, "type", tn), step("op", "encode", "msg", "m", "buf", "b"),
			step("op", "decode", "msg", "m", "buf", "b")}
		return &ReplayReq{Steps: []map[string]any{step("op", "parallel", "threads", 8, "n", 40, "ops", steps)}, Judge: Judge{Kind: "anomaly", Step: 0, Note: "race"}}
	}
	e.pushCall(s, enc, []Value{recv, &Ptr{Obj: bufID}}, nil)
	for _, fs := range e.Run(s) {
		if c.PathProblem(fs, "Encode", nil) {
			continue
		}
		c.footprint(fs, "Encode (zero value)", replay)
		c.ownsItsMemory(fs, recv, "Encode of the zero value", replay)
		c.res.Witness++
	}
}

func c17zero(c *Ctx, mod, tn string, ctor bool) {
	e := c.e()
	T := c.w.typeOf(mod, tn)
	enc := c.w.method(mod, tn, "Encode")
	if T == nil || enc == nil {
		c.Inconclusive("type or Encode not found")
		return
	}
	s := c.w.newState()
	var recv Value
	steps := []map[string]any{step("op", "newbuf", "buf", "b", "hex", ""), step("op", "newmsg", "msg", "m", "module", mod, "type", tn, "ctor", ctor), step("op", "encode", "msg", "m", "buf", "b")}
	if ctor {
		fn := c.w.pkgs[mod].Func("New" + tn)
		if fn == nil || fn.Signature.Params().Len() != 0 {
			c.res.Vacuous = append(c.res.Vacuous, "no constructor New"+tn)
			return
		}
		e.pushCall(s, fn, nil, nil)
		fin := e.Run(s)
		if len(fin) != 1 || fin[0].panicd != "" || fin[0].cut != "" {
			c.Inconclusive("constructor did not run to a single result")
			return
		}
		s = fin[0]
		recv = s.ret
	} else {
		recv = &Ptr{Obj: s.newObj(&Obj{Kind: kCell, Val: e.zero(T)})}
	}
	bufID := s.newObj(&Obj{Kind: kBuffer, B: EmptyBytes(), R: CI(0)})
	e.pushCall(s, enc, []Value{recv, &Ptr{Obj: bufID}}, nil)
	for _, fs := range e.Run(s) {
		if c.PathProblem(fs, "Encode", func(val func(*Term) uint64, msg string) *Violation {
			which := "zero value"
			if ctor {
				which = "constructor result"
			}
			return &Violation{Obligation: "no-panic", Detail: fmt.Sprintf("Encode of the %s of %s.%s panics: %s", which, mod, tn, msg), Replay: &ReplayReq{Steps: steps, Judge: Judge{Kind: "panic"}}}
		}) {
			continue
		}
		c.res.Obl++
		c.res.Dis++
		c.res.Witness++
		if c.res.Sample == nil {
			c.res.Sample = map[string]any{"type": mod + "." + tn, "ctor": ctor, "returns_error": !(enc.Signature.Results().Len() == 0 || isNilErr(fs.ret))}
		}
	}
}

func c17variant(c *Ctx, mc MsgCase, kind string, fieldIdx int) {
	e := c.e()
	keySave := mc.Key
	if kind == "nilbody-unregistered" {
		mc.Key = -1
	}
	h := c.newHarness(mc, "wide", 0)
	s := h.s
	ts := c.sc.Mods[mc.Mod].Types[mc.Typ]
	val2json := func(val func(*Term) uint64) map[string]any { return h.g.Concretize(h.m, val).(map[string]any) }
	patch := func(m map[string]any) {}
	st := h.T.Underlying().(*types.Struct)
	setField := func(goName string, v Value) {
		idx := structField(st, goName)
		o := s.heap[h.mPtr.Obj]
		nf := append([]Value{}, o.Val.(*StructV).F...)
		nf[idx] = v
		o.Val = &StructV{F: nf}
	}
	drained := false
	noreg := false
	switch kind {
	case "longtext":
		n := 300
		if w := typeWidth(ts.Fields[fieldIdx].Prefix); w == 8 {
			n = 255
		}
		h.m.F[fieldIdx] = h.g.symText(s, "long", n)
		h.mPtr = h.g.MaterializePtr(s, h.m)
	case "noreg":
		noreg = true
		fn := c.w.fn("codec.Clear")
		if fn == nil {
			c.Inconclusive("codec.Clear not found")
			return
		}
		e.pushCall(s, fn, nil, nil)
		fin := e.Run(s)
		if len(fin) != 1 || fin[0].panicd != "" || fin[0].cut != "" {
			c.Inconclusive("codec.Clear did not run to a single result")
			return
		}
		s = fin[0]
		s.frames = nil
		h.s = s
	case "drained":
		drained = true
		b := s.heap[h.bufID]
		b.B = VecBytes([]*Term{e.freshVar("consumed", 8), e.freshVar("consumed", 8), e.freshVar("consumed", 8), e.freshVar("unread", 8)})
		b.R = CI(3)
	case "nilpart":
		f := ts.Fields[fieldIdx]
		setField(f.Go, &Ptr{})
		patch = func(m map[string]any) { m[f.Go] = nil }
	case "nilbody":
		bf := ts.BodyField()
		setField(bf.Go, &IfaceV{})
		patch = func(m map[string]any) { m[bf.Go] = nil }
	case "nilbody-unregistered":
		bf := ts.BodyField()
		tab := c.sc.Mods[mc.Mod].Tables[bf.Table]
		for i := range ts.Fields {
			if ts.Fields[i].Go != bf.Key {
				continue
			}
			kv := h.m.F[i]
			for _, en := range tab.Entries {
				switch k := en[0].(type) {
				case string:
					s.pc = append(s.pc, Not(strEqTerm(kv.S, ConstBytes(k))))
				case float64:
					s.pc = append(s.pc, Not(Eq(kv.T, C(kv.T.W, uint64(k)))))
				}
			}
		}
		patch = func(m map[string]any) { m[bf.Go] = nil }
	case "mismatch":
		bf := ts.BodyField()
		tab := c.sc.Mods[mc.Mod].Tables[bf.Table]
		other := ""
		for q := 1; q < len(tab.Entries); q++ {
			cand := tab.Entries[(keySave+q)%len(tab.Entries)][1].(string)
			if cand != tab.Entries[keySave][1].(string) {
				other = cand
				break
			}
		}
		if other == "" {
			c.res.Vacuous = append(c.res.Vacuous, "table has a single body type: no mismatching body exists")
			return
		}
		ov := h.g.Object(s, mc.Mod, other, ".other")
		T := c.w.typeOf(mc.Mod, other)
		setField(bf.Go, &IfaceV{T: types.NewPointer(T), V: h.g.MaterializePtr(s, ov)})
		patch = func(m map[string]any) {
			// the concrete body value is taken from the model of the other object
		}
		val2json = func(val func(*Term) uint64) map[string]any {
			m := h.g.Concretize(h.m, val).(map[string]any)
			m[bf.Go] = h.g.Concretize(ov, val)
			return m
		}
	}
	steps := func(val func(*Term) uint64) []map[string]any {
		m := val2json(val)
		patch(m)
		if drained {
			// mostly consumed buffers whose spare capacity runs out at different points of the encoding
			var st []map[string]any
			for i, spare := range []int{0, 3, 5, 9, 12, 16, 24, 28, 40, 64, 100, 160, 300} {
				bn, mn := fmt.Sprintf("h%d", i), fmt.Sprintf("m%d", i)
				st = append(st, step("op", "newbuf", "buf", bn, "hex", strings.Repeat("00", 64)+"61", "consume", 64, "n", spare),
					step("op", "newmsg", "msg", mn, "module", mc.Mod, "type", mc.Typ, "value", m),
					step("op", "encode", "msg", mn, "buf", bn))
			}
			return st
		}
		st := []map[string]any{step("op", "newbuf", "buf", "b", "hex", ""), step("op", "newmsg", "msg", "m", "module", mc.Mod, "type", mc.Typ, "value", m), step("op", "encode", "msg", "m", "buf", "b")}
		if noreg {
			st = append([]map[string]any{step("op", "registry", "ops", []map[string]any{step("op", "Clear")})}, st...)
		}
		return st
	}
	e.pushCall(s, h.enc, []Value{h.mPtr, &Ptr{Obj: h.bufID}}, nil)
	for _, fs := range e.Run(s) {
		if c.PathProblem(fs, "Encode", func(val func(*Term) uint64, msg string) *Violation {
			return &Violation{Obligation: "no-panic", Detail: fmt.Sprintf("Encode of %s.%s (%s) panics: %s", mc.Mod, mc.Typ, kind, msg), Model: map[string]any{"input": val2json(val)},
				Replay: &ReplayReq{Steps: steps(val), Judge: Judge{Kind: "panic"}}}
		}) {
			continue
		}
		c.res.Obl++
		c.res.Dis++
		c.Witness(fs, kind, func(val func(*Term) uint64) any {
			return map[string]any{"kind": kind, "returns_error": !encOK(h, fs)}
		})
	}
}

// ---------------------------------------------------------------- C16

// reachable: heap objects reachable from a value (through pointers, slices, interfaces, aliased strings).
func reachable(s *State, v Value, seen map[int]bool, aliasStr *[]string) {
	switch x := v.(type) {
	case *Ptr:
		if x.Obj != 0 && !seen[x.Obj] {
			seen[x.Obj] = true
			reachObj(s, x.Obj, seen, aliasStr)
		}
	case *SliceV:
		if x.Obj != 0 && !seen[x.Obj] {
			seen[x.Obj] = true
			reachObj(s, x.Obj, seen, aliasStr)
		}
	case *StringV:
		if x.Alias != 0 {
			// a string built over a byte object (unsafe.String): the object becomes reachable from the value
			*aliasStr = append(*aliasStr, fmt.Sprintf("string sharing memory with object %d", x.Alias))
			if !seen[x.Alias] {
				seen[x.Alias] = true
			}
		}
	case *IfaceV:
		if x.T != nil {
			reachable(s, x.V, seen, aliasStr)
		}
	case *StructV:
		for _, f := range x.F {
			reachable(s, f, seen, aliasStr)
		}
	case *ArrayV:
		for _, f := range x.E {
			reachable(s, f, seen, aliasStr)
		}
	case TupleV:
		for _, f := range x {
			reachable(s, f, seen, aliasStr)
		}
	}
}

func reachObj(s *State, id int, seen map[int]bool, aliasStr *[]string) {
	o := s.heap[id]
	if o == nil {
		return
	}
	switch o.Kind {
	case kCell:
		reachable(s, o.Val, seen, aliasStr)
	case kElems:
		for _, e := range o.E {
			reachable(s, e, seen, aliasStr)
		}
	case kMap:
		for _, en := range o.M {
			reachable(s, en.V, seen, aliasStr)
		}
	}
}

func aliasNotes(s *State) map[int][]int {
	m := map[int][]int{}
	for _, n := range s.notes {
		if strings.HasPrefix(n, "alias:") {
			var a, b int
			fmt.Sscanf(n, "alias:%d:%d", &a, &b)
			m[a] = append(m[a], b)
			m[b] = append(m[b], a)
		}
	}
	return m
}

func c16dec(c *Ctx, mc MsgCase) {
	h, w, _, tail := c.rawHarness(mc, 2)
	e := c.e()
	s := h.s
	in := Concat2(w, VecBytes(tail))
	s.heap[h.bufID].B = in
	input := func(val func(*Term) uint64) []byte { return evalBytes(in, val) }
	d := h.freshReceiver(s)
	steps := func(val func(*Term) uint64) []map[string]any {
		st := decodeSteps(mc, input(val))
		return append(st, step("op", "scribble", "buf", "b"), step("op", "dump", "msg", "d"))
	}
	judge := Judge{Kind: "two_msgs_ne", Step: 2, Step2: 4, Note: "msg-only"}
	e.pushCall(s, h.dec, []Value{d, &Ptr{Obj: h.bufID}}, nil)
	for _, ds := range e.Run(s) {
		if c.PathProblem(ds, "Decode", nil) {
			continue
		}
		if !isNilErr(ds.ret) {
			continue
		}
		seen := map[int]bool{}
		var aliased []string
		reachable(ds, d, seen, &aliased)
		an := aliasNotes(ds)
		shares := seen[h.bufID]
		for id := range seen {
			for _, other := range an[id] {
				if other == h.bufID {
					shares = true
				}
			}
		}
		// (a string over a private copy that nothing else can reach is not sharing with the buffer: only the
		// buffer's own object, or one recorded as aliasing it, counts)
		c.Prove(ds, "message-shares-no-memory-with-buffer", B(!shares), func(val func(*Term) uint64) *Violation {
			return &Violation{Detail: fmt.Sprintf("decoded message shares memory with the source buffer (%v)", aliased), Model: map[string]any{"input_hex": hexOf(input(val))},
				Replay: &ReplayReq{Steps: steps(val), Judge: judge}}
		})
		// havoc the buffer's backing bytes and re-read the message
		before := h.g.Snapshot(ds, d, mc.Mod, mc.Typ)
		hv := ds.clone()
		arr := ArrVar(e.freshName("scribble"))
		hb := hv.heap[h.bufID]
		nb := &Bytes{Len: hb.B.Len}
		nb.At = func(i *Term) *Term { return Select(arr, i) }
		hb.B = nb
		after := h.g.Snapshot(hv, d, mc.Mod, mc.Typ)
		var goals []Goal
		h.g.EqualGoals(before, after, "", &goals)
		all := True
		for _, gl := range goals {
			all = And(all, gl.T)
		}
		c.Prove(hv, "message-unchanged-after-buffer-havoc", all, func(val func(*Term) uint64) *Violation {
			return &Violation{Detail: "overwriting the source buffer changes the decoded message", Replay: &ReplayReq{Steps: steps(val), Judge: judge}}
		})
		if len(ds.imprec) > 0 {
			for _, im := range ds.imprec {
				if strings.Contains(im, "unknown callee") || strings.Contains(im, "embedded array") {
					c.Inconclusive("imprecise aliasing model on this path: " + im)
				}
			}
		}
		c.Witness(ds, "decode", func(val func(*Term) uint64) any {
			return map[string]any{"input_hex": hexOf(input(val)), "objects_reachable_from_message": len(seen)}
		})
	}
}

func c16enc(c *Ctx, mc MsgCase) {
	h := c.newHarness(mc, "wide", 0)
	e := c.e()
	s := h.s
	steps := func(val func(*Term) uint64) []map[string]any {
		st := h.encodeSteps(val)
		return append(st, step("op", "mutate", "msg", "m"), step("op", "dumpbuf", "buf", "b"))
	}
	e.pushCall(s, h.enc, []Value{h.mPtr, &Ptr{Obj: h.bufID}}, nil)
	for _, fs := range e.Run(s) {
		if c.PathProblem(fs, "Encode", nil) || !encOK(h, fs) {
			continue
		}
		seen := map[int]bool{}
		var aliased []string
		reachable(fs, h.mPtr, seen, &aliased)
		an := aliasNotes(fs)
		shares := seen[h.bufID]
		for _, other := range an[h.bufID] {
			if seen[other] {
				shares = true
			}
		}
		mk := func(what string) func(val func(*Term) uint64) *Violation {
			return func(val func(*Term) uint64) *Violation {
				return &Violation{Detail: what, Replay: &ReplayReq{Steps: steps(val), Judge: Judge{Kind: "bufs_ne", Step: 2, Step2: 4}}}
			}
		}
		c.Prove(fs, "buffer-shares-no-memory-with-message", B(!shares), mk("the output buffer shares memory with the message"))
		out := unread(fs.heap[h.bufID])
		// havoc every mutable object reachable from the message
		hv := fs.clone()
		ids := make([]int, 0, len(seen))
		for id := range seen {
			ids = append(ids, id)
		}
		sort.Ints(ids)
		for _, id := range ids {
			o := hv.heap[id]
			if o == nil || id == h.bufID {
				continue
			}
			switch o.Kind {
			case kBytes:
				arr := ArrVar(e.freshName("mut"))
				nb := &Bytes{Len: o.B.Len}
				nb.At = func(i *Term) *Term { return Select(arr, i) }
				o.B = nb
			case kElems:
				o.ownE()
				for i := range o.E {
					if t, ok := o.E[i].(*Term); ok {
						o.E[i] = e.freshVar("mut", t.W)
					}
				}
			case kCell:
				o.Val = havocScalars(e, o.Val)
			}
		}
		out2 := unread(hv.heap[h.bufID])
		goal := Eq(out.Len, out2.Len)
		if goal == True {
			goal = regionGoal(out, out2, CI(0), out.Len, 4096)
		}
		c.Prove(hv, "bytes-unchanged-after-message-havoc", goal, mk("changing the message after Encode changes the bytes already written"))
		c.Witness(fs, "encode", nil)
	}
}

func havocScalars(e *Engine, v Value) Value {
	switch x := v.(type) {
	case *Term:
		if x.W > 0 {
			return e.freshVar("mut", x.W)
		}
		return x
	case *StructV:
		n := &StructV{F: make([]Value, len(x.F))}
		for i, f := range x.F {
			n.F[i] = havocScalars(e, f)
		}
		return n
	case *StringV:
		return &StringV{B: ConstBytes("#mutated")}
	}
	return v
}

// ---------------------------------------------------------------- C20

func (c *Ctx) footprint(st *State, what string, replay func(val func(*Term) uint64) *ReplayReq) {
	registryObjs := c.registryObjects()
	for _, a := range st.acc {
		a := a
		if a.Write {
			c.Prove(st, "no-write-to-shared-state@"+a.Site, False, func(val func(*Term) uint64) *Violation {
				return &Violation{Detail: fmt.Sprintf("%s writes to an object that exists since package initialisation (hidden shared state) at %s", what, a.Site), Replay: replay(val)}
			})
			continue
		}
		if registryObjs[a.Obj] && a.Lock == 0 {
			c.Prove(st, "registry-read-under-lock@"+a.Site, False, func(val func(*Term) uint64) *Violation {
				return &Violation{Detail: fmt.Sprintf("%s reads the checksum registry without holding its lock at %s", what, a.Site), Replay: replay(val)}
			})
		}
	}
	for _, lv := range st.locks {
		if lv != 0 {
			c.Prove(st, "locks-released", False, nil)
		}
	}
	c.res.Obl++
	c.res.Dis++
}

// registryObjects: the checksum registry context object and its map.
func (c *Ctx) registryObjects() map[int]bool {
	out := map[int]bool{}
	g := c.w.pkgs["codec"].Var("checksumServiceContext")
	if g == nil {
		return out
	}
	id := c.e().globals[g]
	p, ok := c.w.base.heap[id].Val.(*Ptr)
	if !ok || p.Obj == 0 {
		return out
	}
	out[p.Obj] = true
	if sv, ok := c.w.base.heap[p.Obj].Val.(*StructV); ok {
		for _, f := range sv.F {
			if mp, ok := f.(*Ptr); ok && mp.Obj != 0 {
				out[mp.Obj] = true
			}
		}
	}
	return out
}

func c20(c *Ctx, mc MsgCase) {
	e := c.e()
	// Encode on a wide value
	h := c.newHarness(mc, "wide", 0)
	par := func(steps []map[string]any) *ReplayReq {
		return &ReplayReq{Steps: []map[string]any{step("op", "parallel", "threads", 8, "n", 40, "ops", steps)}, Judge: Judge{Kind: "anomaly", Step: 0, Note: "race"}}
	}
	e.pushCall(h.s, h.enc, []Value{h.mPtr, &Ptr{Obj: h.bufID}}, nil)
	for _, fs := range e.Run(h.s) {
		if c.PathProblem(fs, "Encode", nil) {
			continue
		}
		c.footprint(fs, "Encode", func(val func(*Term) uint64) *ReplayReq { return par(h.encodeSteps(val)) })
		// the message must not end up referring to package-level objects (an absent part filled in with a shared
		// instance makes independent messages share memory): replayed as encode, then decode into the same
		// object, in parallel threads under the race detector
		c.ownsItsMemory(fs, h.mPtr, "Encode", func(val func(*Term) uint64) *ReplayReq {
			st := h.encodeSteps(val)
			return par(append(st, step("op", "decode", "msg", "m", "buf", "b")))
		})
		c.Witness(fs, "encode footprint", func(val func(*Term) uint64) any {
			return map[string]any{"global_objects_read": len(fs.acc)}
		})
	}
	// Decode on every prefix of an arbitrary image
	h2, w, _, _ := c.rawHarness(mc, 0)
	s := h2.s
	_, hi, ok := boundsOf(w.Len)
	if !ok {
		return
	}
	k := e.boundedVar(s, "cut", 0, hi)
	s.pc = append(s.pc, Le(k, w.Len, true))
	s.heap[h2.bufID].B = SliceBytes(w, CI(0), k)
	input := func(val func(*Term) uint64) []byte {
		full := evalBytes(w, val)
		n := int(val(k))
		if n > len(full) {
			n = len(full)
		}
		return full[:n]
	}
	d := h2.freshReceiver(s)
	e.pushCall(s, h2.dec, []Value{d, &Ptr{Obj: h2.bufID}}, nil)
	for _, ds := range e.Run(s) {
		if c.PathProblem(ds, "Decode", nil) {
			continue
		}
		c.footprint(ds, "Decode", func(val func(*Term) uint64) *ReplayReq { return par(decodeSteps(mc, input(val))) })
		c.ownsItsMemory(ds, d, "Decode", func(val func(*Term) uint64) *ReplayReq {
			st := decodeSteps(mc, input(val))
			return par(append(st, step("op", "newbuf", "buf", "b2", "hex", hexOf(input(val))), step("op", "decode", "msg", "d", "buf", "b2")))
		})
	}
}

// ownsItsMemory: no object reachable from the message existed before the call as package-level state.
func (c *Ctx) ownsItsMemory(st *State, msg Value, what string, replay func(val func(*Term) uint64) *ReplayReq) {
	seen := map[int]bool{}
	var aliased []string
	reachable(st, msg, seen, &aliased)
	shared := 0
	for id := range seen {
		if id <= c.e().baseMax {
			shared = id
		}
	}
	c.Prove(st, "message-refers-to-no-package-level-object", B(shared == 0), func(val func(*Term) uint64) *Violation {
		return &Violation{Detail: fmt.Sprintf("after %s the message refers to an object that exists since package initialisation (object %d): independent messages share it", what, shared), Replay: replay(val)}
	})
}

// c16primLong: a basic-type list reader on n elements of arbitrary bytes (array-backed), preceded by 0..7 arbitrary
// bytes that were already consumed (alignment of the payload in the backing array): the returned slice may not
// share memory with the buffer.
func c16primLong(c *Ctx, p primInst, n int) {
	e := c.e()
	s := c.w.newState()
	ew := typeWidth(p.TArgs[1]) / 8
	arr := ArrVar(e.freshName("payload"))
	body := &Bytes{Len: CI(int64(n * ew))}
	body.At = func(i *Term) *Term { return Select(arr, i) }
	in := Concat2(VecBytes(prefixBytes(p.TArgs[0], CI(int64(n)), p.LE)), body)
	bufID := s.newObj(&Obj{Kind: kBuffer, B: in, R: CI(0)})
	oldU := e.unroll
	e.unroll = n + 8
	defer func() { e.unroll = oldU }()
	steps := func(val func(*Term) uint64) []map[string]any {
		var st []map[string]any
		// every alignment of the payload: 0..7 consumed bytes in front
		for lead := 0; lead < 8; lead++ {
			bn := fmt.Sprintf("b%d", lead)
			st = append(st, step("op", "newbuf", "buf", bn, "hex", strings.Repeat("00", lead)+hexOf(evalBytes(in, val)), "consume", lead),
				step("op", "prim", "fn", p.Name, "args", []any{map[string]any{"buf": bn}}, "keep", bn+"_r"),
				step("op", "scribble", "buf", bn),
				step("op", "dumpkept", "name", bn+"_r"))
		}
		return st
	}
	e.pushCall(s, p.Fn, []Value{&Ptr{Obj: bufID}}, nil)
	for _, fs := range e.Run(s) {
		if c.PathProblem(fs, p.Name, nil) {
			continue
		}
		rv := fs.ret.(TupleV)
		if !isNilErr(rv[1]) {
			continue
		}
		res := rv[0].(*SliceV)
		an := aliasNotes(fs)
		shares := res.Obj == bufID
		for _, other := range an[res.Obj] {
			if other == bufID {
				shares = true
			}
		}
		c.Prove(fs, "list-shares-no-memory-with-buffer", B(!shares), func(val func(*Term) uint64) *Violation {
			return &Violation{Detail: fmt.Sprintf("%s: the returned list of %d elements shares memory with the source buffer", p.Name, n),
				Replay: &ReplayReq{Steps: steps(val), Judge: Judge{Kind: "kept_changed"}}}
		})
		c.Witness(fs, "long list read", func(val func(*Term) uint64) any { return map[string]any{"fn": p.Name, "n": n} })
	}
}
