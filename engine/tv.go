package main

// Translator validation: before a check decides anything, concrete vectors are pushed through both the
// engine (run concretely: all terms fold to constants) and the natively compiled tree (vfrun); bytes,
// error-ness and decoded values must agree. A mismatch means the encoder or an intrinsic is wrong:
// the check stops as broken instead of deciding on a wrong model.

import (
	"encoding/json"
	"fmt"
	"math/rand"
	"os"
	"reflect"
	"sort"
	"time"
)

func randText(rng *rand.Rand, maxLen int) *SVal {
	n := rng.Intn(maxLen + 1)
	b := make([]byte, n)
	for i := range b {
		switch rng.Intn(6) {
		case 0:
			b[i] = ' '
		case 1:
			b[i] = '0'
		case 2:
			b[i] = 0
		case 3:
			b[i] = byte(0x80 + rng.Intn(0x80))
		default:
			b[i] = byte('A' + rng.Intn(26))
		}
	}
	return &SVal{K: 's', S: ConstBytes(string(b)), SMax: maxLen}
}

func randScalar(rng *rand.Rand, w int) *SVal {
	var v uint64
	switch rng.Intn(5) {
	case 0:
		v = 0
	case 1:
		v = ^uint64(0)
	case 2:
		v = uint64(1) << uint(w-1)
	default:
		v = rng.Uint64()
	}
	return &SVal{K: 'i', T: C(w, v)}
}

func (c *Ctx) randValue(rng *rand.Rand, mod, tn string, depth int) *SVal {
	ms := c.sc.Mods[mod]
	ts := ms.Types[tn]
	ov := &SVal{K: 'o', Mod: mod, Typ: tn, F: make([]*SVal, len(ts.Fields))}
	var bodyKeyField, bodyType string
	var bodyKey any
	if bf := ts.BodyField(); bf != nil {
		tab := ms.Tables[bf.Table]
		en := tab.Entries[rng.Intn(len(tab.Entries))]
		bodyKeyField, bodyKey, bodyType = bf.Key, en[0], en[1].(string)
	}
	for i := range ts.Fields {
		f := &ts.Fields[i]
		if f.Go == bodyKeyField {
			switch kv := bodyKey.(type) {
			case string:
				ov.F[i] = constText(kv)
			case float64:
				ov.F[i] = &SVal{K: 'i', T: C(typeWidth(f.Type), uint64(kv))}
			}
			continue
		}
		switch f.Kind {
		case "int", "float", "computed_len", "computed_sum":
			ov.F[i] = randScalar(rng, typeWidth(f.Type))
		case "fixstr":
			ov.F[i] = randText(rng, f.Width+1)
		case "pstr":
			ov.F[i] = randText(rng, 9)
		case "list_basic", "list_fixstr", "list_pstr", "list_obj":
			lv := &SVal{K: 'l'}
			for j, n := 0, rng.Intn(3); j < n; j++ {
				switch f.Kind {
				case "list_basic":
					lv.L = append(lv.L, randScalar(rng, typeWidth(f.Elem)))
				case "list_fixstr":
					lv.L = append(lv.L, randText(rng, f.Width+1))
				case "list_pstr":
					lv.L = append(lv.L, randText(rng, 5))
				case "list_obj":
					lv.L = append(lv.L, c.randValue(rng, mod, f.Elem, depth+1))
				}
			}
			ov.F[i] = lv
		case "nested":
			ov.F[i] = c.randValue(rng, mod, f.Type, depth+1)
		case "body":
			ov.F[i] = c.randValue(rng, mod, bodyType, depth+1)
		}
	}
	return ov
}

func constVal(t *Term) uint64 {
	if t.IsConst() {
		return t.Val
	}
	if t == True {
		return 1
	}
	if t == False {
		return 0
	}
	panic("translator validation: engine produced a non-constant term on a concrete run: " + dumpTerm(t, 3))
}

type tvRunner struct {
	bin string
}

// runTV returns the number of vectors on which engine and native runs agreed.
func runTV(d *Driver, seed int64) (int, error) {
	if os.Getenv("VF_NOTV") != "" {
		return 0, nil
	}
	c, err := newCtx(d, "quick", seed)
	if err != nil {
		return 0, err
	}
	defer c.e().solver.Close()
	bin, err := buildRunner(c.w)
	if err != nil {
		return 0, fmt.Errorf("translator validation: %v", err)
	}
	rng := rand.New(rand.NewSource(seed))
	e := c.e()
	g := &Gen{w: c.w, sc: c.sc, P: 9, Slack: 2}
	agreed := 0
	// messages: a seeded sample of types from every module
	type pick struct{ mod, tn string }
	var picks []pick
	for _, mod := range modules {
		names := c.sc.Mods[mod].TypeNames()
		sort.Strings(names)
		for k := 0; k < 5 && k < len(names); k++ {
			picks = append(picks, pick{mod, names[rng.Intn(len(names))]})
		}
	}
	for _, pk := range picks {
		if c.w.typeOf(pk.mod, pk.tn) == nil || c.w.method(pk.mod, pk.tn, "Encode") == nil || c.w.method(pk.mod, pk.tn, "Decode") == nil {
			continue
		}
		v := c.randValue(rng, pk.mod, pk.tn, 0)
		mismatch, skipped := c.tvMessage(e, g, bin, pk.mod, pk.tn, v)
		if mismatch != "" {
			return agreed, fmt.Errorf("translator validation mismatch on %s.%s: %s", pk.mod, pk.tn, mismatch)
		}
		if !skipped {
			agreed++
		}
	}
	// checksum services on random data
	for _, sv := range checksumSvcs {
		fn, T := c.calcFn(sv)
		if fn == nil {
			continue
		}
		for _, data := range [][]byte{[]byte("123456789"), randBytes(rng, 0), randBytes(rng, 1), randBytes(rng, 37)} {
			old := e.crcExact
			e.crcExact = 64
			s := c.w.newState()
			bufID := s.newObj(&Obj{Kind: kBuffer, B: ConstBytes(string(data)), R: CI(0)})
			recv := &Ptr{Obj: s.newObj(&Obj{Kind: kCell, Val: e.zero(T)})}
			e.pushCall(s, fn, []Value{recv, &Ptr{Obj: bufID}}, nil)
			fin := e.Run(s)
			e.crcExact = old
			if len(fin) != 1 || fin[0].panicd != "" || fin[0].cut != "" {
				continue
			}
			got, ok := fin[0].ret.(*Term)
			if !ok || !got.IsConst() {
				continue
			}
			res, err := runRunner(bin, []map[string]any{step("op", "newbuf", "buf", "b", "hex", hexOf(data)), step("op", "calc", "alg", sv.Alg, "buf", "b")}, 30*time.Second, 8<<20)
			if err != nil || len(res) < 2 || res[1].Ret == nil {
				continue
			}
			_, signed, _ := width(fn.Signature.Results().At(0).Type())
			want := fmt.Sprint(got.Val)
			if signed {
				want = fmt.Sprint(sext(got.Val, got.W))
			}
			if fmt.Sprint(res[1].Ret) != want {
				return agreed, fmt.Errorf("translator validation mismatch on %s.Calc(%x): engine %s, native %v", sv.Alg, data, want, res[1].Ret)
			}
			agreed++
		}
	}
	return agreed, nil
}

func randBytes(rng *rand.Rand, n int) []byte {
	b := make([]byte, n)
	rng.Read(b)
	return b
}

func (c *Ctx) tvMessage(e *Engine, g *Gen, bin, mod, tn string, v *SVal) (mismatch string, skipped bool) {
	defer func() {
		if r := recover(); r != nil {
			mismatch = ""
			skipped = true
		}
	}()
	val := func(t *Term) uint64 { return constVal(t) }
	s := c.w.newState()
	ptr := g.MaterializePtr(s, v)
	bufID := s.newObj(&Obj{Kind: kBuffer, B: EmptyBytes(), R: CI(0)})
	enc, dec := c.w.method(mod, tn, "Encode"), c.w.method(mod, tn, "Decode")
	e.pushCall(s, enc, []Value{ptr, &Ptr{Obj: bufID}}, nil)
	fin := e.Run(s)
	if len(fin) != 1 || fin[0].cut != "" {
		return "", true
	}
	fs := fin[0]
	encPanic := fs.panicd != ""
	encErr := enc.Signature.Results().Len() > 0 && !encPanic && !isNilErr(fs.ret)
	var wire []byte
	if !encPanic {
		wire = evalBytes(unread(fs.heap[bufID]), val)
	}
	steps := []map[string]any{
		step("op", "newbuf", "buf", "b", "hex", ""),
		step("op", "newmsg", "msg", "m", "module", mod, "type", tn, "value", g.Concretize(v, val)),
		step("op", "encode", "msg", "m", "buf", "b"),
		step("op", "newmsg", "msg", "d", "module", mod, "type", tn),
		step("op", "decode", "msg", "d", "buf", "b"),
	}
	res, err := runRunner(bin, steps, 30*time.Second, 8<<20)
	if err != nil || len(res) < 5 {
		return "", true
	}
	if (res[2].Panic != nil) != encPanic {
		return fmt.Sprintf("Encode panic: engine %v, native %v", encPanic, res[2].Panic != nil), false
	}
	if encPanic {
		return "", false
	}
	if (res[2].Err != nil) != encErr {
		return fmt.Sprintf("Encode error: engine %v, native %v", encErr, res[2].Err != nil), false
	}
	if encErr {
		return "", false
	}
	if res[2].Buf != hexOf(wire) {
		return fmt.Sprintf("Encode bytes: engine %s, native %s", hexOf(wire), res[2].Buf), false
	}
	// decode of the same bytes
	d := &Ptr{Obj: fs.newObj(&Obj{Kind: kCell, Val: e.zero(c.w.typeOf(mod, tn))})}
	e.pushCall(fs, dec, []Value{d, &Ptr{Obj: bufID}}, nil)
	fin2 := e.Run(fs)
	if len(fin2) != 1 || fin2[0].cut != "" {
		return "", true
	}
	ds := fin2[0]
	decPanic := ds.panicd != ""
	if (res[4].Panic != nil) != decPanic {
		return fmt.Sprintf("Decode panic: engine %v, native %v", decPanic, res[4].Panic != nil), false
	}
	if decPanic {
		return "", false
	}
	decErr := !isNilErr(ds.ret)
	if (res[4].Err != nil) != decErr {
		return fmt.Sprintf("Decode error: engine %v, native %v", decErr, res[4].Err != nil), false
	}
	if decErr {
		return "", false
	}
	got := g.Concretize(g.Snapshot(ds, d, mod, tn), val)
	if !reflect.DeepEqual(canon(got), canon(res[4].Msg)) {
		a, _ := json.Marshal(canon(got))
		b, _ := json.Marshal(canon(res[4].Msg))
		return fmt.Sprintf("Decode value: engine %s, native %s", a, b), false
	}
	if rest := hexOf(evalBytes(unread(ds.heap[bufID]), val)); rest != res[4].Buf {
		return fmt.Sprintf("Decode remainder: engine %s, native %s", rest, res[4].Buf), false
	}
	return "", false
}
