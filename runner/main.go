// vfrun: native runner linked against the real compiled packages of the tree under test.
// It executes a small script of steps (JSON on stdin) and reports what it observed (JSON on stdout).
// It has no opinion about properties: the engine-side oracle judges the observation.
package main

import (
	"bytes"
	"encoding/hex"
	"encoding/json"
	"fmt"
	"math"
	"os"
	"reflect"
	"runtime"
	"sort"
	"strconv"
	"sync"
	"sync/atomic"
	"time"
	"unsafe"

	"github.com/xinchentechnote/fin-proto-go/codec"
)

type Step struct {
	Op      string          `json:"op"`
	Buf     string          `json:"buf,omitempty"`
	Msg     string          `json:"msg,omitempty"`
	Module  string          `json:"module,omitempty"`
	Type    string          `json:"type,omitempty"`
	Value   json.RawMessage `json:"value,omitempty"`
	Hex     string          `json:"hex,omitempty"`
	Consume int             `json:"consume,omitempty"`
	Tail    string          `json:"tail,omitempty"` // newbuf: bytes placed in the spare capacity behind the content
	Ctor    bool            `json:"ctor,omitempty"`
	Fn      string          `json:"fn,omitempty"`
	Args    []json.RawMessage `json:"args,omitempty"`
	Alg     string          `json:"alg,omitempty"`
	N       int             `json:"n,omitempty"`
	Fill    int             `json:"fill,omitempty"`
	Threads int             `json:"threads,omitempty"`
	Ops     []Step          `json:"ops,omitempty"`
	Keep    string          `json:"keep,omitempty"` // prim: keep the first result under this name
	Name    string          `json:"name,omitempty"` // dumpkept: which kept value
}

type Result struct {
	Err   *string `json:"err"`
	Panic *string `json:"panic"`
	Buf   string  `json:"buf,omitempty"`
	Msg   any     `json:"msg,omitempty"`
	Alloc uint64  `json:"alloc,omitempty"`
	Ret   any     `json:"ret,omitempty"`
	Note  string  `json:"note,omitempty"`
}

type env struct {
	bufs map[string]*bytes.Buffer
	msgs map[string]any
	mods map[string]string
	kept map[string]reflect.Value
}

func strp(s string) *string { return &s }

// ---------------------------------------------------------------- JSON <-> Go values

func setValue(v reflect.Value, raw json.RawMessage, module string) error {
	if len(raw) == 0 {
		return nil
	}
	switch v.Kind() {
	case reflect.Int, reflect.Int8, reflect.Int16, reflect.Int32, reflect.Int64:
		u, err := parseNum(raw)
		if err != nil {
			return err
		}
		bits := v.Type().Bits()
		v.SetInt(signExt(u, bits))
	case reflect.Uint, reflect.Uint8, reflect.Uint16, reflect.Uint32, reflect.Uint64:
		u, err := parseNum(raw)
		if err != nil {
			return err
		}
		if b := v.Type().Bits(); b < 64 {
			u &= (1 << uint(b)) - 1
		}
		v.SetUint(u)
	case reflect.Float32:
		u, err := parseNum(raw)
		if err != nil {
			return err
		}
		// bit pattern, set through unsafe to keep NaN payloads
		*(*uint32)(unsafe.Pointer(v.UnsafeAddr())) = uint32(u)
	case reflect.Float64:
		u, err := parseNum(raw)
		if err != nil {
			return err
		}
		*(*uint64)(unsafe.Pointer(v.UnsafeAddr())) = u
	case reflect.Bool:
		var b bool
		if err := json.Unmarshal(raw, &b); err != nil {
			return err
		}
		v.SetBool(b)
	case reflect.String:
		var h struct {
			Hex *string `json:"$hex"`
		}
		if raw[0] == '"' {
			var s string
			json.Unmarshal(raw, &s)
			v.SetString(s)
			return nil
		}
		if err := json.Unmarshal(raw, &h); err != nil || h.Hex == nil {
			return fmt.Errorf("bad string %s", raw)
		}
		b, err := hex.DecodeString(*h.Hex)
		if err != nil {
			return err
		}
		v.SetString(string(b))
	case reflect.Slice:
		if string(raw) == "null" {
			return nil
		}
		var els []json.RawMessage
		if err := json.Unmarshal(raw, &els); err != nil {
			return err
		}
		sl := reflect.MakeSlice(v.Type(), len(els), len(els))
		for i, e := range els {
			if err := setValue(sl.Index(i), e, module); err != nil {
				return err
			}
		}
		v.Set(sl)
	case reflect.Ptr:
		if string(raw) == "null" {
			return nil
		}
		nv := reflect.New(v.Type().Elem())
		if err := setValue(nv.Elem(), raw, module); err != nil {
			return err
		}
		v.Set(nv)
	case reflect.Interface:
		if string(raw) == "null" {
			return nil
		}
		var probe struct {
			Type string `json:"$type"`
		}
		if err := json.Unmarshal(raw, &probe); err != nil {
			return err
		}
		mk := registry[module][probe.Type]
		if mk == nil {
			return fmt.Errorf("unknown type %s.%s", module, probe.Type)
		}
		obj := mk()
		if err := setValue(reflect.ValueOf(obj).Elem(), raw, module); err != nil {
			return err
		}
		v.Set(reflect.ValueOf(obj))
	case reflect.Struct:
		var m map[string]json.RawMessage
		if err := json.Unmarshal(raw, &m); err != nil {
			return err
		}
		for k, fv := range m {
			if k == "$type" {
				continue
			}
			f := v.FieldByName(k)
			if !f.IsValid() {
				return fmt.Errorf("no field %s in %s", k, v.Type())
			}
			if err := setValue(f, fv, module); err != nil {
				return fmt.Errorf("%s: %v", k, err)
			}
		}
	default:
		return fmt.Errorf("unsupported kind %s", v.Kind())
	}
	return nil
}

func parseNum(raw json.RawMessage) (uint64, error) {
	s := string(raw)
	if len(s) >= 2 && s[0] == '"' {
		s = s[1 : len(s)-1]
	}
	if len(s) > 0 && s[0] == '-' {
		i, err := strconv.ParseInt(s, 10, 64)
		return uint64(i), err
	}
	return strconv.ParseUint(s, 10, 64)
}
func signExt(u uint64, bits int) int64 {
	if bits >= 64 {
		return int64(u)
	}
	u &= (1 << uint(bits)) - 1
	if u&(1<<uint(bits-1)) != 0 {
		return int64(u | ^((1 << uint(bits)) - 1))
	}
	return int64(u)
}

func dumpValue(v reflect.Value) any {
	switch v.Kind() {
	case reflect.Int, reflect.Int8, reflect.Int16, reflect.Int32, reflect.Int64:
		u := uint64(v.Int())
		if b := v.Type().Bits(); b < 64 {
			u &= (1 << uint(b)) - 1
		}
		return strconv.FormatUint(u, 10)
	case reflect.Uint, reflect.Uint8, reflect.Uint16, reflect.Uint32, reflect.Uint64:
		return strconv.FormatUint(v.Uint(), 10)
	case reflect.Float32:
		return strconv.FormatUint(uint64(math.Float32bits(float32(v.Float()))), 10)
	case reflect.Float64:
		return strconv.FormatUint(math.Float64bits(v.Float()), 10)
	case reflect.Bool:
		return v.Bool()
	case reflect.String:
		return map[string]any{"$hex": hex.EncodeToString([]byte(v.String()))}
	case reflect.Slice:
		out := []any{}
		for i := 0; i < v.Len(); i++ {
			out = append(out, dumpValue(v.Index(i)))
		}
		return out
	case reflect.Ptr:
		if v.IsNil() {
			return nil
		}
		return dumpValue(v.Elem())
	case reflect.Interface:
		if v.IsNil() {
			return nil
		}
		return dumpValue(v.Elem())
	case reflect.Struct:
		m := map[string]any{"$type": v.Type().Name()}
		for i := 0; i < v.NumField(); i++ {
			if v.Type().Field(i).IsExported() {
				m[v.Type().Field(i).Name] = dumpValue(v.Field(i))
			}
		}
		return m
	}
	return fmt.Sprintf("<%s>", v.Kind())
}

// float fields: dumpValue on a float32 field loses signalling-NaN payloads through v.Float(); read the bits directly
func init() {
	_ = sort.Strings
}

// ---------------------------------------------------------------- steps

func callCodec(obj any, method string, buf *bytes.Buffer) (err error) {
	if bc, ok := obj.(codec.BinaryCodec); ok {
		if method == "Encode" {
			return bc.Encode(buf)
		}
		return bc.Decode(buf)
	}
	m := reflect.ValueOf(obj).MethodByName(method)
	if !m.IsValid() {
		return fmt.Errorf("no method %s", method)
	}
	out := m.Call([]reflect.Value{reflect.ValueOf(buf)})
	if len(out) == 1 && !out[0].IsNil() {
		return out[0].Interface().(error)
	}
	return nil
}

func backing(buf *bytes.Buffer) []byte {
	f := reflect.ValueOf(buf).Elem().FieldByName("buf")
	p := (*[]byte)(unsafe.Pointer(f.UnsafeAddr()))
	return (*p)[:cap(*p)]
}

func mutate(v reflect.Value) {
	switch v.Kind() {
	case reflect.Ptr, reflect.Interface:
		if !v.IsNil() {
			mutate(v.Elem())
		}
	case reflect.Struct:
		for i := 0; i < v.NumField(); i++ {
			if v.Field(i).CanSet() {
				mutate(v.Field(i))
			}
		}
	case reflect.Slice:
		for i := 0; i < v.Len(); i++ {
			mutate(v.Index(i))
		}
	case reflect.Int, reflect.Int8, reflect.Int16, reflect.Int32, reflect.Int64:
		v.SetInt(^v.Int())
	case reflect.Uint, reflect.Uint8, reflect.Uint16, reflect.Uint32, reflect.Uint64:
		v.SetUint(^v.Uint())
	case reflect.Float32, reflect.Float64:
		v.SetFloat(v.Float() + 1)
	case reflect.String:
		v.SetString("#" + v.String())
	}
}

func (e *env) run(st Step) (res Result) {
	defer func() {
		if r := recover(); r != nil {
			res.Panic = strp(fmt.Sprint(r))
		}
	}()
	switch st.Op {
	case "newbuf":
		b, err := hex.DecodeString(st.Hex)
		if err != nil {
			res.Err = strp(err.Error())
			return
		}
		// exact control over the backing array: len(b) bytes, st.N spare bytes of capacity
		tail, _ := hex.DecodeString(st.Tail)
		extra := 0
		if d := os.Getenv("VFRUN_DIRTY"); d != "" && !(d == "2" && len(e.bufs) == 0) {
			extra = 8192 // a recycled buffer: spare capacity that still holds what was there before
			// (mode 2: every buffer but the first, which serves as the reference of comparisons)
		}
		back := make([]byte, len(b), len(b)+len(tail)+st.N+extra)
		copy(back, b)
		copy(back[len(b):cap(back)], tail)
		if extra > 0 {
			sp := back[len(b)+len(tail) : cap(back)]
			for i := range sp {
				sp[i] = byte(0xA5 ^ (i * 7))
				if sp[i] == 0 {
					sp[i] = 0x3C
				}
			}
		}
		buf := bytes.NewBuffer(back)
		if st.Consume > 0 {
			buf.Next(st.Consume)
		}
		e.bufs[st.Buf] = buf
	case "newmsg":
		mk := registry[st.Module][st.Type]
		if st.Ctor {
			mk = ctors[st.Module][st.Type]
		}
		if mk == nil {
			res.Err = strp("unknown type " + st.Module + "." + st.Type)
			return
		}
		obj := mk()
		if len(st.Value) > 0 && string(st.Value) != "null" {
			if err := setValue(reflect.ValueOf(obj).Elem(), st.Value, st.Module); err != nil {
				res.Err = strp("value: " + err.Error())
				return
			}
		}
		e.msgs[st.Msg] = obj
		e.mods[st.Msg] = st.Module
	case "encode", "decode":
		buf := e.bufs[st.Buf]
		obj := e.msgs[st.Msg]
		var m0, m1 runtime.MemStats
		runtime.ReadMemStats(&m0)
		method := "Encode"
		if st.Op == "decode" {
			method = "Decode"
		}
		err := callCodec(obj, method, buf)
		runtime.ReadMemStats(&m1)
		res.Alloc = m1.TotalAlloc - m0.TotalAlloc
		if err != nil {
			res.Err = strp(err.Error())
		}
		res.Buf = hex.EncodeToString(buf.Bytes())
		res.Msg = dumpValue(reflect.ValueOf(obj))
	case "dump":
		res.Msg = dumpValue(reflect.ValueOf(e.msgs[st.Msg]))
	case "dumpbuf":
		res.Buf = hex.EncodeToString(e.bufs[st.Buf].Bytes())
	case "scribble":
		buf := e.bufs[st.Buf]
		b := backing(buf)
		for i := range b {
			b[i] ^= 0xA5
		}
		buf.Reset()
		for i := 0; i < 64; i++ {
			buf.WriteByte(byte(0x5A + i))
		}
	case "aliaslists":
		// every later top-level slice field of the same type is made the very slice of the first one
		v := reflect.ValueOf(e.msgs[st.Msg]).Elem()
		for i := 0; i < v.NumField(); i++ {
			if v.Field(i).Kind() != reflect.Slice || !v.Field(i).CanSet() {
				continue
			}
			for j := i + 1; j < v.NumField(); j++ {
				if v.Field(j).Type() == v.Field(i).Type() && v.Field(j).CanSet() {
					v.Field(j).Set(v.Field(i))
				}
			}
		}
	case "dumpkept":
		if v, ok := e.kept[st.Name]; ok {
			res.Ret = dumpValue(v)
		}
	case "overwrite":
		// the unread bytes of the buffer are overwritten in place (same memory, same length)
		raw, _ := hex.DecodeString(st.Hex)
		copy(e.bufs[st.Buf].Bytes(), raw)
	case "mutate":
		mutate(reflect.ValueOf(e.msgs[st.Msg]))
	case "calc":
		svc, ok := codec.Get(st.Alg)
		if !ok {
			res.Err = strp("no service " + st.Alg)
			return
		}
		buf := e.bufs[st.Buf]
		before := hex.EncodeToString(buf.Bytes())
		out := reflect.ValueOf(svc).MethodByName("Calc").Call([]reflect.Value{reflect.ValueOf(buf)})
		switch out[0].Kind() {
		case reflect.Int, reflect.Int8, reflect.Int16, reflect.Int32, reflect.Int64:
			res.Ret = strconv.FormatInt(out[0].Int(), 10)
		default:
			res.Ret = strconv.FormatUint(out[0].Uint(), 10)
		}
		res.Buf = hex.EncodeToString(buf.Bytes())
		if res.Buf != before {
			res.Note = "buffer changed"
		}
	case "fillbuf":
		// N bytes of value Fill appended (for long checksum inputs)
		buf := e.bufs[st.Buf]
		if buf == nil {
			buf = &bytes.Buffer{}
			e.bufs[st.Buf] = buf
		}
		buf.Write(bytes.Repeat([]byte{byte(st.Fill)}, st.N))
	case "prim":
		return e.prim(st)
	case "factory":
		fn := factories[st.Module][st.Fn]
		if fn == nil {
			res.Err = strp("unknown factory " + st.Fn)
			return
		}
		fv := reflect.ValueOf(fn)
		arg := reflect.New(fv.Type().In(0)).Elem()
		if err := setValue(arg, st.Args[0], st.Module); err != nil {
			res.Err = strp(err.Error())
			return
		}
		out := fv.Call([]reflect.Value{arg})
		if !out[1].IsNil() {
			res.Err = strp(out[1].Interface().(error).Error())
		}
		if !out[0].IsNil() {
			res.Ret = reflect.TypeOf(out[0].Interface()).Elem().Name()
		}
	case "lockprobe":
		// is a lock of the module's discriminator tables still held (leaked by an earlier step)? every public
		// Registry...Factory function is called with an unused key; one that does not return within 2 s hangs
		done := make(chan struct{})
		go func() {
			for _, fn := range registrars[st.Module] {
				fv := reflect.ValueOf(fn)
				kt, ft := fv.Type().In(0), fv.Type().In(1)
				k := reflect.New(kt).Elem()
				switch kt.Kind() {
				case reflect.String:
					k.SetString("\xff\xfe")
				case reflect.Uint8, reflect.Uint16, reflect.Uint32, reflect.Uint64:
					k.SetUint(uint64(1)<<uint(kt.Bits()) - 15)
				case reflect.Int8, reflect.Int16, reflect.Int32, reflect.Int64:
					k.SetInt(-15)
				}
				f := reflect.MakeFunc(ft, func([]reflect.Value) []reflect.Value { return []reflect.Value{reflect.Zero(ft.Out(0))} })
				fv.Call([]reflect.Value{k, f})
			}
			close(done)
		}()
		select {
		case <-done:
		case <-time.After(2 * time.Second):
			res.Note = "hang"
		}
	case "registry":
		return e.registryOps(st)
	case "parallel":
		return e.parallel(st)
	default:
		res.Err = strp("unknown op " + st.Op)
	}
	return
}

// prim calls a codec primitive instantiation by name with JSON arguments:
// {"buf":"b"} | {"$hex":..} (string) | "123" (integer) | true/false | [..] (slice) | {"$objs":[v,..]} | {"$new":"ZzObj"}
func (e *env) prim(st Step) (res Result) {
	defer func() {
		if r := recover(); r != nil {
			res.Panic = strp(fmt.Sprint(r))
		}
	}()
	fn, ok := prims[st.Fn]
	if !ok {
		res.Err = strp("unknown primitive " + st.Fn)
		return
	}
	fv := reflect.ValueOf(fn)
	ft := fv.Type()
	if len(st.Args) != ft.NumIn() {
		res.Err = strp(fmt.Sprintf("primitive %s wants %d args", st.Fn, ft.NumIn()))
		return
	}
	var in []reflect.Value
	var buf *bytes.Buffer
	for i, raw := range st.Args {
		pt := ft.In(i)
		if pt == reflect.TypeOf((*bytes.Buffer)(nil)) {
			var ref struct {
				Buf string `json:"buf"`
			}
			json.Unmarshal(raw, &ref)
			buf = e.bufs[ref.Buf]
			in = append(in, reflect.ValueOf(buf))
			continue
		}
		if pt.Kind() == reflect.Func {
			in = append(in, reflect.ValueOf(primNew[pt.String()]))
			continue
		}
		if pt.Kind() == reflect.Slice && pt.Elem().Kind() == reflect.Ptr {
			// object list: list of scalar values V
			var els []json.RawMessage
			json.Unmarshal(raw, &els)
			sl := reflect.MakeSlice(pt, len(els), len(els))
			for j, el := range els {
				o := reflect.New(pt.Elem().Elem())
				if err := setValue(o.Elem(), el, ""); err != nil {
					res.Err = strp(err.Error())
					return
				}
				sl.Index(j).Set(o)
			}
			in = append(in, sl)
			continue
		}
		v := reflect.New(pt).Elem()
		if err := setValue(v, raw, ""); err != nil {
			res.Err = strp(fmt.Sprintf("arg %d: %v", i, err))
			return
		}
		in = append(in, v)
	}
	var m0, m1 runtime.MemStats
	runtime.ReadMemStats(&m0)
	out := fv.Call(in)
	runtime.ReadMemStats(&m1)
	res.Alloc = m1.TotalAlloc - m0.TotalAlloc
	var rets []any
	for _, o := range out {
		if o.Type().String() == "error" {
			if !o.IsNil() {
				res.Err = strp(o.Interface().(error).Error())
			}
			continue
		}
		rets = append(rets, dumpValue(o))
		if st.Keep != "" && len(rets) == 1 {
			if e.kept == nil {
				e.kept = map[string]reflect.Value{}
			}
			e.kept[st.Keep] = o
		}
	}
	if len(rets) == 1 {
		res.Ret = rets[0]
	} else if len(rets) > 1 {
		res.Ret = rets
	}
	if buf != nil {
		res.Buf = hex.EncodeToString(buf.Bytes())
	}
	return
}

// ---------------------------------------------------------------- registry (C19) and parallel (C20) replays

type namedSvc struct{ name string }

func (n *namedSvc) Algorithm() string { return n.name }

type gatedSvc struct {
	name string
	gate func()
}

func (g *gatedSvc) Algorithm() string {
	if g.gate != nil {
		g.gate()
	}
	return g.name
}

// registryOps: Ops is a list of {op: Registry|Get|Remove|Clear, alg: name}; Threads>0 runs them concurrently
// N times (stress) and reports atomicity anomalies; otherwise sequentially, reporting each result.
func (e *env) registryOps(st Step) (res Result) {
	if st.Threads == 0 {
		var outs []any
		for _, op := range st.Ops {
			outs = append(outs, doRegistryOp(op, nil))
		}
		res.Ret = outs
		return
	}
	// phase A - concurrent duplicate registration: exactly one must win; a Get after all must return the winner.
	// phase B - registrations, look-ups and removals of one name overlap (material for the race detector; a
	// look-up must return either nothing or one of the services registered under that name).
	anomalies := 0
	rounds := st.N
	if rounds == 0 {
		rounds = 2000
	}
	var builtins []any // the services registered at start-up (phase C clears the registry; they are put back)
	for _, n := range []string{"CRC16", "CRC32", "SSE_BIN", "SZSE_BIN", "BJSE_BIN"} {
		if v, ok := codec.Get(n); ok {
			builtins = append(builtins, v)
		}
	}
	for r := 0; r < rounds; r++ {
		name := fmt.Sprintf("VF_%d", r)
		svcs := make([]*namedSvc, st.Threads)
		oks := make([]bool, st.Threads)
		var wg sync.WaitGroup
		start := make(chan struct{})
		for t := 0; t < st.Threads; t++ {
			svcs[t] = &namedSvc{name}
			wg.Add(1)
			go func(t int) {
				defer wg.Done()
				<-start
				oks[t] = codec.Registry(svcs[t])
			}(t)
		}
		close(start)
		wg.Wait()
		wins := 0
		var winner any
		for t, ok := range oks {
			if ok {
				wins++
				winner = svcs[t]
			}
		}
		got, ok := codec.Get(name)
		if wins != 1 || !ok || got != winner {
			anomalies++
		}
		codec.Remove(name)
		if r%8 == 0 {
			// phase B
			mine := map[any]bool{}
			for t := range svcs {
				mine[svcs[t]] = true
			}
			var bad int32
			var mu sync.Mutex
			start2 := make(chan struct{})
			for t := 0; t < st.Threads; t++ {
				wg.Add(1)
				go func(t int) {
					defer wg.Done()
					<-start2
					for k := 0; k < 4; k++ {
						switch (t + k) % 3 {
						case 0:
							codec.Registry(svcs[t])
						case 1:
							if v, ok := codec.Get(name); ok && !mine[v] {
								mu.Lock()
								bad++
								mu.Unlock()
							}
						case 2:
							codec.Remove(name)
						}
					}
				}(t)
			}
			close(start2)
			wg.Wait()
			codec.Remove(name)
			anomalies += int(bad)
		}
		if r%8 == 4 {
			// phase C - Clear overlaps registrations, look-ups and removals (material for the race detector;
			// afterwards a registration must be visible and the registry usable)
			start3 := make(chan struct{})
			for t := 0; t < st.Threads; t++ {
				wg.Add(1)
				go func(t int) {
					defer wg.Done()
					<-start3
					for k := 0; k < 4; k++ {
						switch (t + k) % 4 {
						case 0:
							codec.Clear()
						case 1:
							codec.Registry(svcs[t])
						case 2:
							codec.Get(name)
						case 3:
							codec.Remove(name)
						}
					}
				}(t)
			}
			close(start3)
			wg.Wait()
			codec.Remove(name)
			if !codec.Registry(svcs[0]) {
				anomalies++
			}
			if v, ok := codec.Get(name); !ok || v != any(svcs[0]) {
				anomalies++
			}
			codec.Remove(name)
			for _, b := range builtins {
				codec.Registry(b)
			}
		}
		if r%8 == 3 {
			// phase E - an owner registers, looks up, removes and looks up again its own name while readers spin
			// on look-ups of that name: a Get after the owner's own Remove returned must not find the name, a Get
			// after its successful Registry must return that very service (lock-free look-up memos published
			// late serve stale entries here; no data race is involved)
			nm := name + "_own"
			stop := make(chan struct{})
			var rg sync.WaitGroup
			for t := 0; t < 2; t++ {
				rg.Add(1)
				go func() {
					defer rg.Done()
					for {
						select {
						case <-stop:
							return
						default:
							codec.Get(nm)
						}
					}
				}()
			}
			for i := 0; i < 100; i++ {
				sv := &namedSvc{nm}
				if !codec.Registry(sv) {
					anomalies++
				}
				if v, ok := codec.Get(nm); !ok || v != any(sv) {
					anomalies++
				}
				codec.Remove(nm)
				if _, ok := codec.Get(nm); ok {
					anomalies++
				}
			}
			close(stop)
			rg.Wait()
			codec.Remove(nm)
		}
		if r%8 == 1 {
			// phase G - Clear empties the registry in one step: with 200 names registered and one Clear in flight, a
			// reader that has seen one of them absent can never afterwards see another one present
			names := make([]string, 200)
			for i := range names {
				names[i] = fmt.Sprintf("%s_g%d", name, i)
				codec.Registry(&namedSvc{names[i]})
			}
			var bad int32
			var wg3 sync.WaitGroup
			start3 := make(chan struct{})
			for t := 0; t < 3; t++ {
				wg3.Add(1)
				go func(t int) {
					defer wg3.Done()
					<-start3
					for pass := 0; pass < 50; pass++ {
						sawAbsent := false
						for i := range names {
							_, ok := codec.Get(names[(i*7+t)%len(names)])
							if !ok {
								sawAbsent = true
							} else if sawAbsent {
								atomic.AddInt32(&bad, 1)
								return
							}
						}
					}
				}(t)
			}
			close(start3)
			codec.Clear()
			wg3.Wait()
			anomalies += int(bad)
			for _, b := range builtins {
				codec.Registry(b)
			}
		}
		if r%8 == 5 {
			// phase F - a name that stays registered is looked up while other names are registered and removed:
			// every look-up must find it (a look-up that gives up when the lock is busy reports it absent)
			nm := name + "_stay"
			sv := &namedSvc{nm}
			codec.Registry(sv)
			stop := make(chan struct{})
			var wg2 sync.WaitGroup
			for t := 0; t < 3; t++ {
				wg2.Add(1)
				go func(t int) {
					defer wg2.Done()
					o := &namedSvc{fmt.Sprintf("%s_w%d", nm, t)}
					for {
						select {
						case <-stop:
							codec.Remove(o.name)
							return
						default:
							codec.Registry(o)
							codec.Remove(o.name)
						}
					}
				}(t)
			}
			for i := 0; i < 400; i++ {
				if v, ok := codec.Get(nm); !ok || v != any(sv) {
					anomalies++
				}
			}
			close(stop)
			wg2.Wait()
			codec.Remove(nm)
		}
		if r%8 == 6 {
			// phase D - a Remove that drains the registry overlaps registrations of other names: a registration
			// that reported success must still be there afterwards (nobody removed it)
			codec.Clear()
			last := &namedSvc{name + "_last"}
			for rep := 0; rep < 60; rep++ {
				codec.Registry(last)
				others := make([]*namedSvc, st.Threads)
				won := make([]bool, st.Threads)
				start4 := make(chan struct{})
				for t := 0; t < st.Threads; t++ {
					others[t] = &namedSvc{fmt.Sprintf("%s_%d_%d", name, rep, t)}
					wg.Add(1)
					go func(t int) {
						defer wg.Done()
						<-start4
						if t == 0 {
							codec.Remove(last.name)
						} else {
							won[t] = codec.Registry(others[t])
						}
					}(t)
				}
				close(start4)
				wg.Wait()
				for t := 1; t < st.Threads; t++ {
					if v, ok := codec.Get(others[t].name); won[t] && (!ok || v != any(others[t])) {
						anomalies++
					}
					codec.Remove(others[t].name)
				}
			}
			codec.Clear()
			for _, b := range builtins {
				codec.Registry(b)
			}
		}
	}
	res.Ret = map[string]any{"rounds": rounds, "anomalies": anomalies}
	return
}

func doRegistryOp(op Step, gate func()) any {
	switch op.Op {
	case "Registry":
		return codec.Registry(&gatedSvc{name: op.Alg, gate: gate})
	case "Get":
		v, ok := codec.Get(op.Alg)
		return []any{v != nil, ok}
	case "Remove":
		codec.Remove(op.Alg)
		return nil
	case "Clear":
		codec.Clear()
		return nil
	}
	return "unknown"
}

// parallel: run the ops (newmsg/encode/decode sequences per thread) concurrently and compare with a sequential run.
func (e *env) parallel(st Step) (res Result) {
	threads := st.Threads
	if threads == 0 {
		threads = 8
	}
	rounds := st.N
	if rounds == 0 {
		rounds = 50
	}
	runOnce := func() string {
		sub := &env{bufs: map[string]*bytes.Buffer{}, msgs: map[string]any{}, mods: map[string]string{}}
		var outs []Result
		for _, op := range st.Ops {
			outs = append(outs, sub.run(op))
		}
		b, _ := json.Marshal(outs)
		return string(b)
	}
	want := runOnce()
	mismatch := 0
	var mu sync.Mutex
	for r := 0; r < rounds; r++ {
		var wg sync.WaitGroup
		for t := 0; t < threads; t++ {
			wg.Add(1)
			go func() {
				defer wg.Done()
				got := runOnce()
				if got != want {
					mu.Lock()
					mismatch++
					mu.Unlock()
				}
			}()
		}
		wg.Wait()
	}
	res.Ret = map[string]any{"rounds": rounds, "threads": threads, "mismatches": mismatch}
	return
}

func main() {
	var req struct {
		Steps []Step `json:"steps"`
	}
	dec := json.NewDecoder(os.Stdin)
	out := json.NewEncoder(os.Stdout)
	for {
		req.Steps = nil
		if err := dec.Decode(&req); err != nil {
			return
		}
		e := &env{bufs: map[string]*bytes.Buffer{}, msgs: map[string]any{}, mods: map[string]string{}}
		var results []Result
		for _, st := range req.Steps {
			results = append(results, e.run(st))
		}
		out.Encode(map[string]any{"results": results})
	}
}
